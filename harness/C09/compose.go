package engine

// C09 (F-A part): the changes of a patch apply in order, each to the result
// of the previous one, and the outcome equals the chain of separate runs.
//
// The in-place sequence (what gopatch does: change k+1 is matched against the
// tree change k has just mutated) is compared with a reference chain: change
// 1 applied to the file, the intermediate result re-built from scratch as a
// freshly parsed tree (the '+' template of change 1 instantiated with the
// same symbolic fillers - what printing and re-parsing would yield), change 2
// applied to that. Fillers at the sites are solver variables.

import (
	"reflect"

	"github.com/uber-go/gopatch/internal/zzverif/nd"
)

// plus is the file after change 1 alone.
var c09ComposeCases = []faCase{
	{name: "second-matches-generated-call",
		patch: "@@\n@@\n-foo(1, ...)\n+bar(...)\n\n@@\n@@\n-bar()\n+baz()\n",
		minus: "package p\n\nfunc f() {\n\t⟦foo(1)⟧\n\tuse(⟦foo(1, «d1:two»)⟧)\n}\n",
		plus:  "package p\n\nfunc f() {\n\t⟦bar()⟧\n\tuse(⟦bar(«d1»)⟧)\n}\n"},
	{name: "second-binds-rewritten-subtree",
		patch: "@@\nvar x expression\n@@\n-x.Close()\n+closeQuietly(x)\n\n@@\nvar y expression\n@@\n-y.Print()\n+show(y)\n",
		minus: "package p\n\nfunc f() {\n\th(⟦«x:c».Close()⟧).Print()\n\tg(1, ⟦«x:d.e».Close()⟧).Print()\n\tk(c).Print()\n}\n",
		plus:  "package p\n\nfunc f() {\n\th(⟦closeQuietly(«x»)⟧).Print()\n\tg(1, ⟦closeQuietly(«x»)⟧).Print()\n\tk(c).Print()\n}\n"},
	{name: "second-pattern-removed-by-first",
		patch: "@@\nvar x expression\n@@\n-old(x)\n+renewed(x)\n\n@@\nvar y expression\n@@\n-old(y)\n+never(y)\n",
		minus: "package p\n\nvar a = ⟦old(«x:1»)⟧\n\nvar b = wrap(⟦old(«x:old»)⟧)\n",
		plus:  "package p\n\nvar a = ⟦renewed(«x»)⟧\n\nvar b = wrap(⟦renewed(«x»)⟧)\n"},
	{name: "second-needs-duplicated-binding",
		patch: "@@\nvar x expression\n@@\n-a(x)\n+b(x, x)\n\n@@\nvar y expression\n@@\n-b(y, y)\n+c(y)\n",
		minus: "package p\n\nvar v = ⟦a(«x:n.m»)⟧\n\nvar w = b(1, 2) + ⟦a(«x:g(3)»)⟧\n",
		plus:  "package p\n\nvar v = ⟦b(«x», «x»)⟧\n\nvar w = b(1, 2) + ⟦b(«x», «x»)⟧\n"},
	{name: "second-spans-inserted-statements",
		patch: "@@\nvar m identifier\n@@\n-m.Lock()\n+m.Lock()\n+defer m.Unlock()\n\n@@\nvar n identifier\n@@\n-n.Lock()\n-defer n.Unlock()\n-work()\n+guarded(n)\n",
		minus: "package p\n\nfunc f() {\n\t⟦«m:mu».Lock()⟧\n\twork()\n}\n\nfunc g() {\n\tpre()\n\t⟦«m:rw».Lock()⟧\n\tother()\n}\n",
		plus:  "package p\n\nfunc f() {\n\t⟦«m».Lock()\n\tdefer «m».Unlock()⟧\n\twork()\n}\n\nfunc g() {\n\tpre()\n\t⟦«m».Lock()\n\tdefer «m».Unlock()⟧\n\tother()\n}\n"},
	{name: "second-rebinds-declared-identifier",
		patch: "@@\nvar x expression\n@@\n-use(x)\n+consume(x)\n\n@@\nvar y identifier\n@@\n-y := load()\n-consume(y)\n+consume(load())\n",
		minus: "package p\n\nfunc f() {\n\tv := load()\n\t⟦use(«x:v»)⟧\n}\n\nfunc g(w int) {\n\tw := load()\n\t⟦use(«x:w»)⟧\n}\n",
		plus:  "package p\n\nfunc f() {\n\tv := load()\n\t⟦consume(«x»)⟧\n}\n\nfunc g(w int) {\n\tw := load()\n\t⟦consume(«x»)⟧\n}\n"},
	{name: "second-sees-elided-empty-list",
		patch: "@@\nvar T identifier\n@@\n-T{...}\n+mk(T{...})\n\n@@\nvar U identifier\n@@\n-mk(U{})\n+zero(U)\n",
		minus: "package p\n\nvar a = ⟦«T:Box»{}⟧\n\nvar b = ⟦«T:Bag»{«d1:x: 1»}⟧\n",
		plus:  "package p\n\nvar a = ⟦mk(«T»{})⟧\n\nvar b = ⟦mk(«T»{«d1»})⟧\n"},
	// identifier resolution left over from the first parse decides what a later change does to imports
	{name: "second-deletes-import-after-shadow-removed",
		patch: "@@\n@@\n-foo := mk()\n+setup()\n\n@@\n@@\n-import \"example.com/foo\"\n\n-foo.Old()\n+bar()\n",
		minus: "package p\n\nimport \"example.com/foo\"\n\nfunc f() {\n\t⟦foo := mk()⟧\n\tif ok {\n\t\tfoo.Run()\n\t}\n}\n\nfunc g() {\n\tfoo.Old()\n}\n",
		plus:  "package p\n\nimport \"example.com/foo\"\n\nfunc f() {\n\t⟦setup()⟧\n\tif ok {\n\t\tfoo.Run()\n\t}\n}\n\nfunc g() {\n\tfoo.Old()\n}\n"},
	{name: "second-deletes-import-param-still-shadows",
		patch: "@@\nvar x identifier\n@@\n-use(x)\n+x.Use()\n\n@@\n@@\n-import \"example.com/foo\"\n\n-foo.Old()\n+bar()\n",
		minus: "package p\n\nimport \"example.com/foo\"\n\nfunc f(foo *T) {\n\t⟦use(«x:foo»)⟧\n}\n\nfunc g() {\n\tfoo.Old()\n}\n",
		plus:  "package p\n\nimport \"example.com/foo\"\n\nfunc f(foo *T) {\n\t⟦«x».Use()⟧\n}\n\nfunc g() {\n\tfoo.Old()\n}\n"},
	// an earlier change leaves a tree that prints as text whose parse has another shape
	{name: "first-leaves-single-result-in-parens",
		patch: "@@\nvar name identifier\n@@\n-func name(foo string) (..., error) {\n+func name(foo string) (...) {\n- return ..., nil\n+ return ...\n }\n\n@@\nvar name identifier\n@@\n-func name(foo string) string {\n+func name(foo int) string {\n   ...\n }\n",
		minus: "package p\n\n⟦func «name:a»(foo string) («d1:string», error) {\n\treturn «d2:\"x\"», nil\n}⟧\n",
		plus:  "package p\n\n⟦func «name»(foo string) «d1» {\n\treturn «d2»\n}⟧\n"},
	{name: "first-leaves-empty-result-list",
		patch: "@@\nvar name identifier\n@@\n-func name(foo string) (..., err error) {\n+func name(foo string) (...) {\n- return ..., nil\n+ return ...\n }\n\n@@\nvar name identifier\n@@\n-func name(foo string) {\n+func name(foo int) {\n   ...\n }\n",
		minus: "package p\n\n⟦func «name:a»(foo string) (err error) {\n\treturn nil\n}⟧\n",
		plus:  "package p\n\n⟦func «name»(foo string) {\n\treturn\n}⟧\n"},
	{name: "first-leaves-single-index-list",
		patch: "@@\nvar a, b expression\n@@\n-G[a, b, ...]\n+G[a, ...]\n\n@@\n@@\n-G[int]\n+H\n",
		minus: "package p\n\nvar x = ⟦G[«a:int», «b:string»]⟧{}\n",
		plus:  "package p\n\nvar x = ⟦G[«a»]⟧{}\n"},
}

// VerifC09Compose is the entry point.
func VerifC09Compose() {
	c := c09ComposeCases[nd.Choose("case", len(c09ComposeCases))]
	r := faPrepare(c)
	nd.Assert(len(r.prog.Changes) == 2, c.name+": harness expects two changes")
	for k := range r.sites {
		r.symboliseSite(k)
		nd.Assume(r.want[k]) // every site is an instance of change 1
	}
	c1, c2 := r.prog.Changes[0], r.prog.Changes[1]

	// in place: change 1, then change 2 on the mutated tree
	d1, ok1 := c1.Match(r.file)
	nd.Assert(ok1, c.name+": change 1 does not match its instances")
	if !ok1 {
		return
	}
	seq, err := c1.Replace(d1, NewChangelog())
	nd.Assert(err == nil, c.name+": change 1 fails")
	if err != nil {
		return
	}
	mid := r.expectedFile() // fresh tree of the intermediate result, same symbolic fillers
	nd.Assert(faEqual(reflect.ValueOf(seq.Decls), reflect.ValueOf(mid.Decls)), c.name+": change 1 alone does not yield its '+' pattern instantiated")

	d2, okSeq := c2.Match(seq)
	dr, okRef := c2.Match(mid)
	nd.Assert(okSeq == okRef, c.name+": change 2 matches the in-place result of change 1 differently from the re-parsed result")
	if okSeq != okRef {
		return
	}
	if okSeq {
		nd.Assert(c01CountMatches(d2) == c01CountMatches(dr), c.name+": change 2 rewrites a different number of sites in place than after re-parsing")
		var e1, e2 error
		seq, e1 = c2.Replace(d2, NewChangelog())
		mid, e2 = c2.Replace(dr, NewChangelog())
		nd.Assert((e1 == nil) == (e2 == nil), c.name+": change 2 fails in one of the two runs only")
		if e1 != nil || e2 != nil {
			return
		}
	}
	nd.Assert(len(seq.Decls) == len(mid.Decls), c.name+": results differ in their declarations")
	nd.Assert(faEqual(reflect.ValueOf(seq.Decls), reflect.ValueOf(mid.Decls)), c.name+": applying the changes in one run differs from the chain of separate runs")
	nd.Reach("compared")
}
