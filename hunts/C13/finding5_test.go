package main

// C13 finding 5 (package main, repository root).
//
// section.go:isComment accepts '#' lines with leading white space (this is
// documented and tested), but programSplitter.next strips the first *byte* of
// the line rather than the '#', so an indented description line is reported
// with a stray "# " in front.
import (
	"bytes"
	"fmt"
	"go/ast"
	"go/parser"
	"go/token"
	"os"
	"path/filepath"
	"reflect"
	"strings"
	"testing"
)

func c13h5Run(t *testing.T, patch, src string) (stdout, stderr string, err error) {
	t.Helper()
	dir := t.TempDir()
	file := filepath.Join(dir, "src.go")
	if werr := os.WriteFile(file, []byte(src), 0o644); werr != nil {
		t.Fatal(werr)
	}
	var out, errb bytes.Buffer
	cmd := mainCmd{
		Stdin:  bytes.NewReader([]byte(patch)),
		Stdout: &out,
		Stderr: &errb,
		Getwd:  func() (string, error) { return dir, nil },
	}
	func() {
		defer func() {
			if r := recover(); r != nil {
				err = fmt.Errorf("PANIC: %v", r)
			}
		}()
		err = cmd.Run([]string{"--print-only", file})
	}()
	return out.String(), strings.ReplaceAll(errb.String(), dir, "DIR"), err
}

// c13h5Syntax renders src as a position-free, comment-free syntax tree dump.
func c13h5Syntax(t *testing.T, src string) string {
	t.Helper()
	f, err := parser.ParseFile(token.NewFileSet(), "out.go", src, parser.SkipObjectResolution)
	if err != nil {
		return "UNPARSEABLE: " + err.Error() + "\n" + src
	}
	posT := reflect.TypeOf(token.NoPos)
	var buf bytes.Buffer
	_ = ast.Fprint(&buf, nil, f, func(name string, v reflect.Value) bool {
		return v.Type() != posT && name != "Obj" && name != "Scope" && name != "Unresolved"
	})
	return buf.String()
}

func TestC13H5_IndentedDescriptionLine(t *testing.T) {
	const src = `package a

func f() {
	foo(a)
}
`
	const flush = "# Use bar\n@@\n@@\n-foo(...)\n+bar(...)\n"
	const indented = "  # Use bar\n@@\n@@\n-foo(...)\n+bar(...)\n"

	out1, stderr1, err1 := c13h5Run(t, flush, src)
	out2, stderr2, err2 := c13h5Run(t, indented, src)
	if err1 != nil || err2 != nil {
		t.Fatalf("errors: %v; %v", err1, err2)
	}
	if c13h5Syntax(t, out1) != c13h5Syntax(t, out2) {
		t.Errorf("results differ")
	}
	if stderr1 != stderr2 {
		t.Errorf("reported description depends on the indentation of the '#' line:\n  flush:    %q\n  indented: %q", stderr1, stderr2)
	}
}
