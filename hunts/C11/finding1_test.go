package patch

// Directory: patch/ (package patch). Needs helpers_c11_test.go.
//
// Finding 1: an import on a context (unprefixed) line of the patch is
// deleted from the file unless the file uses filepath.Base(path) as a
// selector base.

import "testing"

func TestC11Finding1_ContextBlankImportDeleted(t *testing.T) {
	c11Check(t, `@@
@@
 import _ "foo/side"

-a()
+b()
`, `package x

import (
	"fmt"
	_ "foo/side"
)

func f() {
	a()
	fmt.Println()
}
`, `"fmt"`, `_ "foo/side"`)
}

func TestC11Finding1_ContextDotImportDeleted(t *testing.T) {
	c11Check(t, `@@
@@
 import . "dot/pkg"

-a()
+b()
`, `package x

import . "dot/pkg"

func f() {
	a()
	Exported()
}
`, `. "dot/pkg"`)
}

func TestC11Finding1_ContextImportStillUsedDeleted(t *testing.T) {
	c11Check(t, `@@
@@
 import "github.com/cenkalti/backoff/v4"

-backoff.Retry(...)
+backoff.RetryNotify(...)
`, `package x

import (
	"context"

	"github.com/cenkalti/backoff/v4"
)

func f(ctx context.Context) error {
	return backoff.Retry(op, backoff.NewExponentialBackOff())
}
`, `"context"`, `"github.com/cenkalti/backoff/v4"`)
}
