package patch

// Finding 5 (C05): when a patch adds the first import to a file whose package
// clause has a trailing comment (for example an import comment,
// package a // import "example.com/a"), the new import declaration is given
// the position of the comment that follows the package clause. That comment -
// the doc comment or compiler directive of the first declaration, or a
// free-standing //go:generate line - is printed as a trailing comment of the
// import line: the first declaration loses its doc comment / directive.
//
// Goes in directory: patch/

import (
	"strings"
	"testing"
)

func TestFinding5_AddedImportStealsDirectiveOfFirstDecl(t *testing.T) {
	const patch = `@@
var x expression
@@
+import "fmt"

-println(x)
+fmt.Println(x)
`
	const src = `package a // import "example.com/a"

//go:noinline
func g() {}

func f() {
	println(1)
}
`
	p, err := Parse("p.patch", []byte(patch))
	if err != nil {
		t.Fatal(err)
	}
	outb, err := p.Apply("a.go", []byte(src))
	if err != nil {
		t.Fatal(err)
	}
	out := string(outb)
	// g is not touched by the patch. Its directive must stay a line of its
	// own directly above it.
	if !strings.Contains(out, "\n//go:noinline\nfunc g() {}\n") {
		t.Errorf("the //go:noinline directive of the untouched function g was moved away from it:\n%s", out)
	}
}
