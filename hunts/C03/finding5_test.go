package patch

// Package directory: patch/   (needs helpers_c03_test.go next to it)
//
// Finding 5: a "..." on a '+' line that is written ABOVE the '-' line holding
// its counterpart is not associated with anything (the error returned by
// engine.connectDots is discarded in compileChange). The patch loads, and the
// elided code is silently dropped from every rewritten site, or gopatch panics.

import "testing"

func TestC03Finding5_ElidedArgsDropped(t *testing.T) {
	const p = "@@\nvar x expression\n@@\n+bar(x, ...)\n-foo(x, ...)\n"
	const src = "package p\n\nfunc f() {\n\ty := foo(1, 2)\n\tpost(foo(3, g(4), h...))\n}\n"
	const want = "package p\n\nfunc f() {\n\ty := bar(1, 2)\n\tpost(foo(3, g(4), h...))\n}\n"
	c03Expect(t, p, src, want) // got: y := bar(1)
}

func TestC03Finding5_Panic(t *testing.T) {
	const p = "@@\n@@\n+bar(...)\n+baz()\n-foo(...)\n"
	const src = "package p\n\nfunc f() {\n\tpre()\n\tfoo(1, 2)\n\tpost()\n}\n"
	const want = "package p\n\nfunc f() {\n\tpre()\n\tbar(1, 2)\n\tbaz()\n\tpost()\n}\n"
	c03Expect(t, p, src, want) // got: panic reflect.Set: value of type ast.Stmt is not assignable to type ast.Expr
}
