package engine

import (
	"fmt"
	"go/ast"
	"go/parser"
	"go/token"
	"strconv"

	"github.com/uber-go/gopatch/internal/parse"
	"github.com/uber-go/gopatch/internal/zzverif/nd"
)

type c11Kind struct {
	name    string
	patch   string
	minus   string // path on a '-' line ("" none); its package name is the last element (or the literal name)
	minusNm string // explicit name of the '-' import in the patch ("" unnamed, "mv" metavariable)
	plus    string
	plusNm  string
	ctx     string // path merely matched on a context line
}

var c11Kinds = []c11Kind{
	{name: "add", patch: "@@\n@@\n+import \"new/lib\"\n\n-foo()\n+lib.Foo()\n", plus: "new/lib"},
	{name: "delete", patch: "@@\n@@\n-import \"old/pkg\"\n\n-pkg.Foo()\n+foo()\n", minus: "old/pkg"},
	{name: "replace", patch: "@@\n@@\n-import \"old/pkg\"\n+import \"new/lib\"\n\n-pkg.Foo()\n+lib.Foo()\n", minus: "old/pkg", plus: "new/lib"},
	{name: "rename-named", patch: "@@\n@@\n-import aa \"old/pkg\"\n+import bb \"old/pkg\"\n\n-aa.Foo()\n+bb.Foo()\n", minus: "old/pkg", minusNm: "aa", plus: "old/pkg", plusNm: "bb"},
	{name: "context-only", patch: "@@\n@@\n import \"old/pkg\"\n\n-pkg.Foo()\n+pkg.Bar()\n", ctx: "old/pkg"},
	// the metavariable is spelled like the package (documented practice: with an unnamed file import the spelling matters)
	{name: "metavar-named", patch: "@@\nvar pkg identifier\n@@\n-import pkg \"old/pkg\"\n+import pkg \"new/lib\"\n\n-pkg.Foo()\n+pkg.Bar()\n", minus: "old/pkg", minusNm: "mv", plus: "new/lib", plusNm: "mv"},
	{name: "two-deleted", patch: "@@\n@@\n-import \"old/pkg\"\n-import \"old/two\"\n\n-pkg.Foo(two.X)\n+foo()\n", minus: "old/pkg"},
}

type c11Spec struct{ name, path string }

func c11Specs(f *ast.File) (out []c11Spec) {
	for _, d := range f.Decls {
		g, ok := d.(*ast.GenDecl)
		if !ok || g.Tok != token.IMPORT {
			continue
		}
		for _, s := range g.Specs {
			is := s.(*ast.ImportSpec)
			p, _ := strconv.Unquote(is.Path.Value)
			n := ""
			if is.Name != nil {
				n = is.Name.Name
			}
			out = append(out, c11Spec{n, p})
		}
	}
	return
}

func c11Count(specs []c11Spec, name, path string, anyName bool) int {
	n := 0
	for _, s := range specs {
		if s.path == path {
			n = n + nd.Ite(nd.Or(anyName, nd.StrEq(s.name, name)), 1, 0)
		}
	}
	return n
}

// VerifC11Imports: after a change applies, imports the patch does not
// mention are exactly as before; a '+' import is present once; a '-' import
// is gone unless remaining code still refers to its package name.
func VerifC11Imports() {
	k := c11Kinds[nd.Choose("kind", len(c11Kinds))]
	fset := token.NewFileSet()
	pp, err := parse.Parse(fset, "p.patch", []byte(k.patch))
	if err != nil {
		panic("harness: " + err.Error())
	}
	prog, err := Compile(fset, pp)
	if err != nil {
		panic("harness: " + err.Error())
	}
	// file: unrelated imports in 1-2 blocks, the affected import, the site, 0-2 remaining uses
	layout := nd.Choose("layout", 3) // 0: one grouped block, 1: separate single imports, 2: two blocks
	affectedName := k.minusNm
	fileNamed := false
	if k.minusNm == "mv" {
		fileNamed = nd.Choose("filenamed", 2) == 1 // metavariable matches a named or an unnamed import
		affectedName = ""
		if fileNamed {
			affectedName = "qq"
		}
	}
	aff := ""
	affPath := k.minus
	if affPath == "" {
		affPath = k.ctx
	}
	if affPath != "" {
		aff = fmt.Sprintf("%q", affPath)
		if affectedName != "" {
			aff = affectedName + " " + aff
		}
	}
	var lines []string
	lines = append(lines, `"fmt"`, `u1 "un/rel1"`, `_ "un/blank"`, `. "un/dot"`)
	if aff != "" {
		lines = append(lines, aff)
	}
	if k.name == "two-deleted" {
		lines = append(lines, `"old/two"`)
	}
	src := "package p\n\n"
	switch layout {
	case 0:
		src += "import (\n"
		for _, l := range lines {
			src += "\t" + l + "\n"
		}
		src += ")\n"
	case 1:
		for _, l := range lines {
			src += "import " + l + "\n"
		}
	default:
		src += "import (\n\t" + lines[0] + "\n\t" + lines[1] + "\n)\n\nimport (\n"
		for _, l := range lines[2:] {
			src += "\t" + l + "\n"
		}
		src += ")\n"
	}
	qual := "pkg"
	switch {
	case k.minusNm == "aa":
		qual = "aa"
	case k.minusNm == "mv" && fileNamed:
		qual = "qq"
	}
	site := qual + ".Foo()"
	switch k.name {
	case "add":
		site = "foo()"
	case "two-deleted":
		site = "pkg.Foo(two.X)"
	}
	nuses := nd.Choose("uses", 3)
	chained := nd.Choose("chained", 2) == 1
	src += "\nfunc f() {\n\tfmt.Println(u1.V)\n\t" + site + "\n"
	for u := 0; u < nuses; u++ {
		if chained {
			src += fmt.Sprintf("\t_ = xyz.Get%d().Field\n", u)
		} else {
			src += fmt.Sprintf("\txyz.Use%d()\n", u)
		}
	}
	src += "}\n"
	file, err := parser.ParseFile(fset, "a.go", src, parser.ParseComments)
	if err != nil {
		panic("harness: " + err.Error() + "\n" + src)
	}
	// remaining uses: the qualifier is an arbitrary 3-letter (or as long as the package name) identifier
	var quals []string
	ast.Inspect(file, func(n ast.Node) bool {
		if id, ok := n.(*ast.Ident); ok && id.Name == "xyz" {
			q := nd.Str("qual", len(qual))
			for i := 0; i < len(q); i++ {
				nd.Assume(nd.And(q[i] >= 'a', q[i] <= 'z'))
			}
			id.Name = q
			quals = append(quals, q)
		}
		return true
	})
	// the unrelated named import's name is arbitrary too
	for _, is := range file.Imports {
		if is.Name != nil && is.Name.Name == "u1" {
			s := nd.Str("uname", 2)
			nd.Assume(nd.And(s[0] >= 'a', s[0] <= 'z'))
			nd.Assume(nd.And(s[1] >= 'a', s[1] <= 'z'))
			nd.Assume(nd.Not(nd.StrEq(s, qual)))
			is.Name.Name = s
		}
	}
	before := c11Specs(file)
	ch := prog.Changes[0]
	d, ok := ch.Match(file)
	nd.Assert(ok, k.name+": the change must apply")
	if !ok {
		return
	}
	out, err := ch.Replace(d, NewChangelog())
	nd.Assert(err == nil, k.name+": Replace failed")
	if err != nil {
		return
	}
	after := c11Specs(out)

	mentioned := func(p string) bool {
		return p == k.minus || p == k.plus || p == k.ctx || (k.name == "two-deleted" && p == "old/two")
	}
	// unmentioned imports: same (name, path), once each, nothing new
	for _, s := range before {
		if mentioned(s.path) {
			continue
		}
		nd.Assert(c11Count(after, s.name, s.path, false) == 1, fmt.Sprintf("%s: unrelated import %q lost, duplicated or renamed", k.name, s.path))
	}
	for _, s := range after {
		if mentioned(s.path) {
			continue
		}
		nd.Assert(c11Count(before, s.name, s.path, false) == 1, fmt.Sprintf("%s: an import the patch does not mention was added (%q)", k.name, s.path))
	}
	// '+' import present exactly once under the right name
	if k.plus != "" {
		wantName := k.plusNm
		if k.plusNm == "mv" {
			wantName = ""
			if fileNamed {
				wantName = "qq"
			}
		}
		nd.Assert(c11Count(after, wantName, k.plus, false) == 1, fmt.Sprintf("%s: the '+' import is not present exactly once under the right name", k.name))
		if k.plus != k.minus {
			nd.Assert(c11Count(after, "", k.plus, true) == 1, fmt.Sprintf("%s: the '+' import appears more than once", k.name))
		}
	}
	// '-' import: gone iff nothing refers to its package name any more
	if k.minus != "" {
		still := false
		for _, q := range quals {
			still = nd.Or(still, nd.StrEq(q, qual))
		}
		n := c11Count(after, "", k.minus, true)
		if k.plusNm == "mv" {
			// the '+' import takes over the captured name: the old import must go in any case
			still = false
		}
		if k.minus == k.plus {
			// renamed: only the spec under the old name is in question
			n = c11Count(after, affectedName, k.minus, false)
		}
		nd.Assert(nd.Implies(nd.Not(still), n == 0), fmt.Sprintf("%s: the '-' import survives although nothing refers to its package", k.name))
		nd.Assert(nd.Implies(still, n == 1), fmt.Sprintf("%s: a matched import was removed although remaining code still refers to its package", k.name))
	}
	if k.name == "two-deleted" {
		still2 := false
		for _, q := range quals {
			still2 = nd.Or(still2, nd.StrEq(q, "two"))
		}
		n2 := c11Count(after, "", "old/two", true)
		nd.Assert(nd.Implies(nd.Not(still2), n2 == 0), "two-deleted: the second '-' import survives although nothing refers to it")
		nd.Assert(nd.Implies(still2, n2 == 1), "two-deleted: the second matched import was removed although remaining code still refers to it")
	}
	if k.ctx != "" {
		nd.Assert(c11Count(after, "", k.ctx, true) == 1, k.name+": an import that is only matched and still used must be kept")
	}
	nd.Reach("done")
}
