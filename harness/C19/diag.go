package engine

import (
	"fmt"
	"go/token"
	"strings"

	"github.com/uber-go/gopatch/internal/parse"
	"github.com/uber-go/gopatch/internal/zzverif/nd"
)

// c19Builder assembles a patch file and tracks the (line, column) of every
// byte it emits, so the harness knows the true position of the injected fault.
type c19Builder struct {
	buf       []byte
	line, col int
}

func (b *c19Builder) str(s string) {
	for i := 0; i < len(s); i++ {
		b.buf = append(b.buf, s[i])
		if s[i] == '\n' {
			b.line++
			b.col = 1
		} else {
			b.col++
		}
	}
}

// sym emits a symbolic byte that is not a newline.
func (b *c19Builder) sym(c byte) {
	b.buf = append(b.buf, c)
	b.col++
}

func (b *c19Builder) spaces(n int) {
	for i := 0; i < n; i++ {
		b.str(" ")
	}
}

func c19Letter(name string) byte {
	c := nd.Byte(name)
	nd.Assume(c >= 'a')
	nd.Assume(c <= 'z')
	return c
}

// a well-formed earlier change, with optional description comment and
// trailing blank line; comment bytes are arbitrary (non-newline ASCII).
func (b *c19Builder) goodChange(idx int) {
	if nd.Choose("cmt", 2) == 1 {
		b.str("#")
		for k := 0; k < 2; k++ {
			c := nd.Byte("cbyte")
			nd.Assume(c < 0x80)
			nd.Assume(c != '\n')
			b.sym(c)
		}
		b.str("\n")
	}
	if idx%2 == 0 {
		b.str("@@\n")
	} else {
		b.str("@ ch1 @\n")
	}
	b.str("var a expression\n@@\n-f(a)\n+g(a)\n")
	if nd.Choose("blank", 2) == 1 {
		b.str("\n")
	}
}

// VerifC19Diag: one header/metavariable fault injected after an arbitrary
// prefix; the diagnostic must name the patch file and the fault's position.
func VerifC19Diag() {
	b := &c19Builder{line: 1, col: 1}
	npre := nd.Choose("npre", nd.Param("NPRE", 2)+1)
	for i := 0; i < npre; i++ {
		b.goodChange(i)
	}
	kind := nd.Choose("fault", 9)
	sp := 1 + nd.Choose("spacing", 2)
	exact := true
	wantErr := nd.Or(true, true)
	compileTime := false
	var fl, fc int // position of the offending token
	loLine, hiLine := 0, 0

	// description comment lines directly above the (possibly faulty) header
	for k := nd.Choose("hcmt", 3); k > 0; k-- {
		b.str("# about this change\n")
	}
	header := func() {
		switch kind {
		case 0: // bad character in a change name
			b.str("@")
			b.spaces(sp)
			shape := nd.Choose("nameshape", 4) // ab<x>c | <x> alone | <x>bc | na\u00efve<x>c (a multi-byte letter before the bad one)
			if shape == 0 {
				b.str("ab")
			}
			if shape == 3 {
				b.str("na\u00efve") // the column counts bytes: the 2-byte letter advances it by 2
			}
			fl, fc = b.line, b.col
			x := nd.Byte("badch")
			nd.Assume(x < 0x80)
			nd.Assume(x > 0x20) // not a space or control character
			nd.Assume(nd.Not(nd.Or(nd.Or(nd.And(x >= 'a', x <= 'z'), nd.And(x >= 'A', x <= 'Z')), nd.Or(nd.And(x >= '0', x <= '9'), x == '_'))))
			b.sym(x)
			switch shape {
			case 0, 3:
				b.str("c @\n")
			case 1:
				b.str(" @\n")
			default:
				b.str("bc @\n")
			}
		case 1: // a line starting with '@' that is no header
			fl, fc = b.line, b.col
			b.str("@x")
			x := nd.Byte("junk")
			nd.Assume(x < 0x80)
			nd.Assume(x != '\n')
			nd.Assume(x != '@')
			nd.Assume(x > 0x20)
			b.sym(x)
			b.str("\n")
		default:
			b.str("@@\n")
		}
	}
	if kind == 2 {
		// text where the first header is expected (only possible before the first change)
		nd.Assume(npre == 0)
		fl, fc = b.line, b.col
		x := nd.Byte("junk0")
		nd.Assume(x < 0x80)
		nd.Assume(x > 0x20)
		nd.Assume(x != '@')
		nd.Assume(x != '#')
		b.sym(x)
		y := nd.Byte("junk1")
		nd.Assume(y < 0x80)
		nd.Assume(y != '\n')
		b.sym(y)
		b.str("\n@@\n")
	} else {
		header()
	}
	// metavariable section
	if nd.Choose("innercmt", 2) == 1 {
		b.str("# inner comment\n")
	}
	prior := nd.Choose("prior", 2) == 1
	notPrior := func(c byte) {
		if prior { // names of the earlier declaration would be (other) duplicates
			nd.Assume(c != 'p')
			nd.Assume(c != 'q')
		}
	}
	if prior {
		b.str("var p, q identifier\n")
		if nd.Choose("innercmt2", 2) == 1 {
			b.str("  # another\n")
		}
	}
	metaStart := b.line
	// the faulty declaration may be indented
	ind := func() {
		k := nd.Choose("indent", 3)
		if k != 0 && nd.Param("FULLIND", 0) == 0 {
			nd.Assume(npre == 0) // quick tier: indentation only without a prefix of earlier changes
		}
		b.str([]string{"", "  ", "\t"}[k])
	}
	switch kind {
	case 3: // unknown metavariable type (3 arbitrary letters)
		ind()
		b.str("var")
		b.spaces(sp)
		b.str("x")
		b.spaces(sp)
		fl, fc = b.line, b.col
		for k := 0; k < 3; k++ {
			b.sym(c19Letter("ty"))
		}
		b.str("\n")
		compileTime = true
	case 4: // duplicate name in one declaration: error iff the names are equal
		ind()
		b.str("var")
		b.spaces(sp)
		x := c19Letter("n1")
		notPrior(x)
		b.sym(x)
		b.str(",")
		b.spaces(sp)
		fl, fc = b.line, b.col
		y := c19Letter("n2")
		notPrior(y)
		b.sym(y)
		b.str(" expression\n")
		wantErr = x == y
		compileTime = true
	case 5: // duplicate name across declarations
		b.str("var ")
		x := c19Letter("n1")
		notPrior(x)
		b.sym(x)
		b.str(" expression\n")
		ind()
		b.str("var")
		b.spaces(sp)
		fl, fc = b.line, b.col
		y := c19Letter("n2")
		notPrior(y)
		b.sym(y)
		b.str(" identifier\n")
		wantErr = x == y
		compileTime = true
	case 6: // a digit where a name is expected
		ind()
		b.str("var")
		b.spaces(sp)
		fl, fc = b.line, b.col
		d := nd.Byte("digit")
		nd.Assume(d >= '0')
		nd.Assume(d <= '9')
		b.sym(d)
		b.str(" expression\n")
	case 7: // missing type: no unique column, any position on that line
		loLine = b.line
		b.str("var")
		b.spaces(sp)
		b.str("x\n")
		hiLine = b.line
		exact = false
	case 8: // EOF inside the metavariable section
		b.str("var x expression\n")
		loLine, hiLine = metaStart, b.line
		exact = false
	default:
		b.str("var x expression\n")
	}
	if kind != 8 {
		b.str("@@\n-f(x)\n+g(x)\n")
	}

	fset := token.NewFileSet()
	prog, err := parse.Parse(fset, "p.patch", b.buf)
	if err == nil {
		nd.Assert(!(kind <= 2 || kind >= 6), "header/syntax fault accepted by the parser")
		_, err = Compile(fset, prog)
	} else {
		nd.Assert(prog == nil, "a program escaped together with a parse error")
		// kind 3: three letters may spell a keyword (var, map, for), which the
		// metavariable parser rejects itself, at the same token.
		nd.Assert(!compileTime || kind == 3, "parser rejected a syntactically valid metavariable section")
	}
	if err == nil {
		nd.Assert(nd.Not(wantErr), "faulty patch accepted without any diagnostic")
		nd.Reach("accepted")
		return
	}
	nd.Assert(wantErr, "valid patch rejected")
	msg := err.Error()
	if exact {
		want := fmt.Sprintf("p.patch:%d:%d:", fl, fc)
		nd.Assert(strings.Contains(msg, want), "diagnostic does not name the offending token's file:line:column")
	} else {
		ok := false
		for l := loLine; l <= hiLine; l++ {
			if strings.Contains(msg, fmt.Sprintf("p.patch:%d:", l)) {
				ok = true
			}
		}
		nd.Assert(ok, "diagnostic does not name the patch file and the line of the malformed declaration")
	}
	nd.Assert(strings.Contains(msg, "p.patch:"), "diagnostic does not name the patch file")
	nd.Reach("rejected")
}
