#!/bin/bash
# run gopatch's own test suite (all packages) in the given tree and print pass/fail counts
cd "${1:-/repo}" || exit 2
export GOFLAGS=-mod=mod GOPROXY=off GOSUMDB=off GOTOOLCHAIN=local
go test -json -vet=off -count=1 -timeout 25m ./... 2>&1 | python3 -c "
import sys,json
p=f=0; failed=[]
for l in sys.stdin:
    try: e=json.loads(l)
    except: continue
    if e.get('Test'):
        if e['Action']=='pass': p+=1
        elif e['Action']=='fail': f+=1; failed.append(e['Package'].split('/')[-1]+'::'+e['Test'])
print('pass',p,'fail',f); print('\n'.join(failed[:20]))
sys.exit(1 if f else 0)"
