package engine

import (
	"reflect"

	"github.com/uber-go/gopatch/internal/data"
	"github.com/uber-go/gopatch/internal/zzverif/nd"
)

// Catalogue for metavariable kinds and repeated occurrences. Entries marked
// nonInstance differ from an instance in the KIND or SHAPE of a filler.
var c02Cases = []faCase{
	{name: "ident-mv-ident", idents: []string{"x"},
		patch: "@@\nvar x identifier\n@@\n-x.Close()\n+closeIt(x)\n",
		minus: "package p\n\nfunc f() {\n\t⟦«x:conn».Close()⟧\n}\n"},
	{name: "ident-mv-selector", idents: []string{"x"}, nonInstance: true,
		patch: "@@\nvar x identifier\n@@\n-x.Close()\n+closeIt(x)\n",
		minus: "package p\n\nfunc f() {\n\t⟦«x:a.b».Close()⟧\n}\n"},
	{name: "ident-mv-call", idents: []string{"x"}, nonInstance: true,
		patch: "@@\nvar x identifier\n@@\n-x.Close()\n+closeIt(x)\n",
		minus: "package p\n\nfunc f() {\n\t⟦«x:get()».Close()⟧\n}\n"},
	{name: "ident-mv-paren", idents: []string{"x"}, nonInstance: true,
		patch: "@@\nvar x identifier\n@@\n-use(x)\n+use2(x)\n",
		minus: "package p\n\nvar v = ⟦use(«x:(a)»)⟧\n"},
	// things that satisfy ast.Expr without being expressions
	{name: "expr-mv-key-value-element", nonInstance: true,
		patch: "@@\nvar x expression\n@@\n-T{x}\n+T{x, x}\n",
		minus: "package p\n\nvar v = ⟦T{«x:a: 1»}⟧\n"},
	{name: "expr-mv-variadic-parameter-type", nonInstance: true,
		patch: "@@\nvar x expression\n@@\n-func f(a x) {}\n+func f(a []x) {}\n",
		minus: "package p\n\n⟦func f(a «x:...int») {}⟧\n"},
	{name: "expr-mv-inferred-array-length", nonInstance: true,
		patch: "@@\nvar n expression\n@@\n-[n]int{1}\n+make([]int, n)\n",
		minus: "package p\n\nvar v = ⟦[«n:...»]int{1}⟧\n"},
	{name: "expr-mv-elided-type-literal", nonInstance: true,
		patch: "@@\nvar x expression\n@@\n-[]T{x}\n+[]T{wrap(x)}\n",
		minus: "package p\n\nvar v = ⟦[]T{«x:{1}»}⟧\n"},
	{name: "expr-mv-kinds",
		patch: "@@\nvar a, b, c, d, e expression\n@@\n-five(a, b, c, d, e)\n+five(e, d, c, b, a)\n",
		minus: "package p\n\nvar v = ⟦five(«a:n», «b:\"s\"», «c:x.y.z», «d:f(1)(2)», «e:func() int { return 3 }»)⟧\n"},
	{name: "expr-mv-kinds2",
		patch: "@@\nvar a, b, c, d, e expression\n@@\n-five(a, b, c, d, e)\n+five(e, d, c, b, a)\n",
		minus: "package p\n\nvar v = ⟦five(«a:-n», «b:*p», «c:m[k]», «d:[]int{1, 2}», «e:v.(T)»)⟧\n"},
	{name: "repeat-equal",
		patch: "@@\nvar x expression\n@@\n-eq(x, x, x)\n+one(x)\n",
		minus: "package p\n\nvar v = ⟦eq(«x:a.b(c, 1)», «x:a.b(c, 1)», «x:a.b(c, 1)»)⟧\n"},
	{name: "repeat-composite-literal",
		patch: "@@\nvar x expression\n@@\n-eq(x, x)\n+one(x)\n",
		minus: "package p\n\nvar v = ⟦eq(«x:[]int{1, 2}», «x:[]int{1, 2}»)⟧\n"},
	{name: "repeat-func-literal",
		patch: "@@\nvar x expression\n@@\n-eq(x, x)\n+one(x)\n",
		minus: "package p\n\nvar v = ⟦eq(«x:func() int { return 1 }», «x:func() int { return 1 }»)⟧\n"},
	{name: "repeat-key-value",
		patch: "@@\nvar x expression\n@@\n-eq(x, x)\n+one(x)\n",
		minus: "package p\n\nvar v = ⟦eq(«x:T{A: 1, b: k}», «x:T{A: 1, b: k}»)⟧\n"},
	{name: "repeat-paren-depth", nonInstance: true,
		patch: "@@\nvar x expression\n@@\n-eq(x, x)\n+one(x)\n",
		minus: "package p\n\nvar v = ⟦eq(«x:a», «x:(a)»)⟧\n"},
	{name: "repeat-extra-arg", nonInstance: true,
		patch: "@@\nvar x expression\n@@\n-eq(x, x)\n+one(x)\n",
		minus: "package p\n\nvar v = ⟦eq(«x:f(a)», «x:f(a, b)»)⟧\n"},
	{name: "repeat-variadic", nonInstance: true,
		patch: "@@\nvar x expression\n@@\n-eq(x, x)\n+one(x)\n",
		minus: "package p\n\nvar v = ⟦eq(«x:f(a...)», «x:f(a)»)⟧\n"},
	{name: "repeat-kind-differs", nonInstance: true,
		patch: "@@\nvar x expression\n@@\n-eq(x, x)\n+one(x)\n",
		minus: "package p\n\nvar v = ⟦eq(«x:a.b», «x:a+b»)⟧\n"},
	{name: "repeat-ident-stmt", idents: []string{"i"},
		patch: "@@\nvar i identifier\nvar n expression\n@@\n-for i := 0; i < n; i++ {\n-\tuse(i)\n-}\n+times(n)\n",
		minus: "package p\n\nfunc f() {\n\t⟦for «i:k» := 0; «i:k» < «n:len(xs)»; «i:k»++ {\n\t\tuse(«i:k»)\n\t}⟧\n}\n"},
	{name: "undeclared-name-is-literal",
		patch: "@@\nvar x expression\n@@\n-y.Do(x)\n+y.Do2(x)\n",
		minus: "package p\n\nvar v = ⟦y.Do(«x:1»)⟧\n"},
	{name: "underscore-mv",
		patch: "@@\nvar _ expression\nvar x expression\n@@\n-pair(_, x)\n+single(x)\n",
		minus: "package p\n\nvar v = ⟦pair(_, «x:q»)⟧\n"},
}

// VerifC02Node: metavariables bind by kind, repeated occurrences must be
// syntactically identical (leaf-wise and shape-wise).
func VerifC02Node() {
	c := c02Cases[nd.Choose("case", len(c02Cases))]
	r := faPrepare(c)
	r.symboliseSite(0)
	loc := r.locs[0]
	m := r.prog.Changes[0].matcher.NodeMatcher
	_, got := m.Match(reflect.ValueOf(loc.node), data.New(), nodeRegion(loc.node))
	nd.Assert(nd.Iff(got, r.want[0]), c.name+": matched iff kinds fit and all occurrences of a metavariable stand for identical code")
	nd.Reach("done")
}

// VerifC02NearMiss: lists inside later occurrences of a repeated metavariable.
func VerifC02NearMiss() {
	c := c02Cases[nd.Choose("case", len(c02Cases))]
	if c.nonInstance {
		nd.Reach("done")
		return
	}
	r := faPrepare(c)
	_, n := r.nearMiss(0, 0)
	if n == 0 {
		nd.Reach("done")
		return
	}
	sel := 1 + nd.Choose("nearmiss", n)
	if ok, _ := r.nearMiss(0, sel); !ok {
		nd.Reach("done")
		return
	}
	r.symboliseSite(0)
	loc := r.locs[0]
	m := r.prog.Changes[0].matcher.NodeMatcher
	_, got := m.Match(reflect.ValueOf(loc.node), data.New(), nodeRegion(loc.node))
	nd.Assert(!got, c.name+": a site with an extra or missing list element was matched")
	nd.Reach("done")
}

// Two sites: bindings made while trying (and failing or succeeding at) one
// site never influence the verdict for another.
var c02FileCases = []faCase{
	{name: "two-sites-independent",
		patch: "@@\nvar x, y expression\n@@\n-pair(x, y, x)\n+ok(x, y)\n",
		minus: "package p\n\nvar a = ⟦pair(«x:1», «y:2», «x:1»)⟧\n\nvar b = ⟦pair(«x:u.v», «y:w», «x:u.v»)⟧\n\nfunc f() {\n\tg(⟦pair(«x:k», «y:k», «x:k»)⟧)\n}\n",
		plus:  "package p\n\nvar a = ⟦ok(«x», «y»)⟧\n\nvar b = ⟦ok(«x», «y»)⟧\n\nfunc f() {\n\tg(⟦ok(«x», «y»)⟧)\n}\n"},
	{name: "stmt-sites-independent", idents: []string{"v"},
		patch: "@@\nvar v identifier\nvar e expression\n@@\n-v := e\n-use(v)\n+use(e)\n",
		minus: "package p\n\nfunc f() {\n\t{\n\t\t⟦«v:a» := «e:1»\n\t\tuse(«v:a»)⟧\n\t}\n\t{\n\t\t⟦«v:b» := «e:g()»\n\t\tuse(«v:b»)⟧\n\t}\n}\n",
		plus:  "package p\n\nfunc f() {\n\t{\n\t\t⟦use(«e»)⟧\n\t}\n\t{\n\t\t⟦use(«e»)⟧\n\t}\n}\n"},
}
