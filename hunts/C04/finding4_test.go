package patch

// Finding 4 (C04, mechanism "recognising which '...' tokens are elisions (vs
// variadic)"): a variadic '...' that is not directly attached to a plain
// identifier is taken for an elision and replaced by a placeholder identifier,
// so a legal patch that combines a real elision with such a variadic cannot
// even be loaded. Likewise an elision in an *unnamed* parameter list is spliced
// as a named placeholder ("_ d") as soon as the list contains map[K]V, [N]T,
// T[P], struct{...} or interface{...}.
//
// Goes in: patch/ (package patch). Uses applyC04 from finding1_test.go.

import (
	"strings"
	"testing"
)

func TestFinding4_VariadicSpreadOfNonIdentifier(t *testing.T) {
	patch := "@@\n@@\n-foo(..., b[1:]...)\n+bar(..., b[1:]...)\n"
	got, err := applyC04(t, patch, "package p\n\nfunc _() {\n\tfoo(1, 2, b[1:]...)\n}\n")
	if err != nil {
		t.Fatalf("patch rejected: %v", err)
	}
	if !strings.Contains(got, "bar(1, 2, b[1:]...)") {
		t.Errorf("got:\n%s", got)
	}
}

func TestFinding4_VariadicSpreadOfCallResult(t *testing.T) {
	patch := "@@\n@@\n-foo(..., g()...)\n+bar(..., g()...)\n"
	got, err := applyC04(t, patch, "package p\n\nfunc _() {\n\tfoo(1, 2, g()...)\n}\n")
	if err != nil {
		t.Fatalf("patch rejected: %v", err)
	}
	if !strings.Contains(got, "bar(1, 2, g()...)") {
		t.Errorf("got:\n%s", got)
	}
}

func TestFinding4_VariadicParameterOfNonIdentifierType(t *testing.T) {
	patch := "@@\n@@\n-func foo(..., args ...interface{}) {\n+func bar(..., args ...interface{}) {\n   ...\n }\n"
	got, err := applyC04(t, patch, "package p\n\nfunc foo(a int, args ...interface{}) {\n\tx()\n}\n")
	if err != nil {
		t.Fatalf("patch rejected: %v", err)
	}
	if !strings.Contains(got, "func bar(a int, args ...interface{})") {
		t.Errorf("got:\n%s", got)
	}
}

func TestFinding4_UnnamedParamsWithMapType(t *testing.T) {
	patch := "@@\n@@\n-func foo(..., map[string]int) {\n+func bar(..., map[string]int) {\n   ...\n }\n"
	got, err := applyC04(t, patch, "package p\n\nfunc foo(int, map[string]int) {\n\tx()\n}\n")
	if err != nil {
		t.Fatalf("patch rejected: %v", err)
	}
	if !strings.Contains(got, "func bar(int, map[string]int)") {
		t.Errorf("got:\n%s", got)
	}
}
