package main

import (
	"bytes"
	"fmt"
	"go/ast"
	"go/format"
	"go/parser"
	"go/token"
	"os"
	"path/filepath"
	"strings"
	"testing"

	"golang.org/x/tools/go/ast/astutil"
)

// Finding 4 (C09): "a command line with several -p/-P patches yields the same
// program as running gopatch once per change, in the given order".
//
// loadPatches always loads every -p patch before the -P list, whatever their
// order on the command line, so "-P list.txt -p bc.patch" applies bc.patch
// BEFORE the patches listed in list.txt.
func TestC09Finding4_PatchesFileBeforeDashP(t *testing.T) {
	const src = `package a

func f() {
	a()
}
`
	const ab = "@@\n@@\n-a()\n+b()\n"
	const bc = "@@\n@@\n-b()\n+c()\n"

	dir := t.TempDir()
	c09WriteF4(t, filepath.Join(dir, "ab.patch"), ab)
	c09WriteF4(t, filepath.Join(dir, "bc.patch"), bc)
	c09WriteF4(t, filepath.Join(dir, "list.txt"), filepath.Join(dir, "ab.patch")+"\n")
	c09WriteF4(t, filepath.Join(dir, "x.go"), src)

	// given order: list.txt (= ab.patch), then bc.patch
	if err := c09GopatchF4(dir,
		"-P", filepath.Join(dir, "list.txt"),
		"-p", filepath.Join(dir, "bc.patch"),
		"x.go"); err != nil {
		t.Fatal(err)
	}
	got, err := os.ReadFile(filepath.Join(dir, "x.go"))
	if err != nil {
		t.Fatal(err)
	}

	// reference: one run per patch, in the given order
	chain := c09ChainF4(t, src, ab, bc)
	if chain.err != nil {
		t.Fatal(chain.err)
	}
	if c09NormF4(t, string(got)) != c09NormF4(t, chain.out) {
		t.Errorf("C09 violated: -P list.txt -p bc.patch is not applied in the given order\n"+
			"--- combined run:\n%s\n--- chain (ab.patch, then bc.patch):\n%s", got, chain.out)
	}
}

// ---- helper (self-contained; names are suffixed with F4 so that all
// findingN_test.go files can live side by side in package main) ----

type c09RunF4 struct {
	out string // resulting file contents
	err error  // error returned by mainCmd.Run (first failing step for a chain)
}

func c09WriteF4(t *testing.T, path, content string) {
	t.Helper()
	if err := os.MkdirAll(filepath.Dir(path), 0o755); err != nil {
		t.Fatal(err)
	}
	if err := os.WriteFile(path, []byte(content), 0o644); err != nil {
		t.Fatal(err)
	}
}

func c09GopatchF4(dir string, args ...string) error {
	var stdout, stderr bytes.Buffer
	cmd := mainCmd{
		Stdin:  strings.NewReader(""),
		Stdout: &stdout,
		Stderr: &stderr,
		Getwd:  func() (string, error) { return dir, nil },
	}
	return cmd.Run(args)
}

// c09CombinedF4 runs gopatch ONCE with all the patches, in order.
func c09CombinedF4(t *testing.T, src string, patches ...string) c09RunF4 {
	t.Helper()
	dir := t.TempDir()
	c09WriteF4(t, filepath.Join(dir, "x.go"), src)
	var args []string
	for i, p := range patches {
		pp := filepath.Join(dir, fmt.Sprintf("%d.patch", i))
		c09WriteF4(t, pp, p)
		args = append(args, "-p", pp)
	}
	err := c09GopatchF4(dir, append(args, "x.go")...)
	got, rerr := os.ReadFile(filepath.Join(dir, "x.go"))
	if rerr != nil {
		t.Fatal(rerr)
	}
	return c09RunF4{out: string(got), err: err}
}

// c09ChainF4 runs gopatch once per patch, each run starting from the file
// that the previous run produced. It stops at the first failing step.
func c09ChainF4(t *testing.T, src string, patches ...string) c09RunF4 {
	t.Helper()
	dir := t.TempDir()
	c09WriteF4(t, filepath.Join(dir, "x.go"), src)
	var firstErr error
	for i, p := range patches {
		pp := filepath.Join(dir, fmt.Sprintf("%d.patch", i))
		c09WriteF4(t, pp, p)
		if err := c09GopatchF4(dir, "-p", pp, "x.go"); err != nil {
			firstErr = err
			break
		}
	}
	got, rerr := os.ReadFile(filepath.Join(dir, "x.go"))
	if rerr != nil {
		t.Fatal(rerr)
	}
	return c09RunF4{out: string(got), err: firstErr}
}

// c09NormF4 renders src as a syntax tree with comments dropped and
// parenthesis nodes elided, with all white space removed.
func c09NormF4(t *testing.T, src string) string {
	t.Helper()
	fset := token.NewFileSet()
	f, err := parser.ParseFile(fset, "x.go", src, 0)
	if err != nil {
		t.Fatalf("output is not valid Go: %v\n%s", err, src)
	}
	astutil.Apply(f, nil, func(c *astutil.Cursor) bool {
		if p, ok := c.Node().(*ast.ParenExpr); ok {
			c.Replace(p.X)
		}
		return true
	})
	var b bytes.Buffer
	if err := format.Node(&b, fset, f); err != nil {
		t.Fatal(err)
	}
	return strings.Join(strings.Fields(b.String()), "")
}
