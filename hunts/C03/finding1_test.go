package patch

// Package directory: patch/   (needs helpers_c03_test.go next to it)
//
// Finding 1: a match site that lies inside another match site is silently
// left unchanged, although its own instantiated replacement is admissible.

import "testing"

// (a) the inner site is inside the code bound to a metavariable of the outer site.
func TestC03Finding1_SiteInsideMetavariableBinding(t *testing.T) {
	const p = "@@\nvar x, y expression\n@@\n-foo(x, y)\n+foo(y, x)\n"
	const src = `package p

func f() {
	foo(foo(1, 2), 3)
}
`
	// outer site: x=foo(1, 2) y=3 ; inner site: x=1 y=2
	const want = `package p

func f() {
	foo(3, foo(2, 1))
}
`
	c03Expect(t, p, src, want)
}

// For contrast: the same inner site IS rewritten when it sits in the part of the
// outer site that is covered by "..." instead of by a metavariable.
func TestC03Finding1_ContrastSiteInsideElidedArgs(t *testing.T) {
	const p = "@@\nvar x expression\n@@\n-foo(x, ...)\n+foo(..., x)\n"
	const src = `package p

func f() {
	foo(1, foo(2, 3), 4)
	foo(foo(5, 6), 7)
}
`
	const want = `package p

func f() {
	foo(foo(3, 2), 4, 1)
	foo(7, foo(6, 5))
}
`
	c03Expect(t, p, src, want)
}

// (b) the inner site is in the elided ("...") body of a compound statement
// that the outer site matched.
func TestC03Finding1_SiteInsideElidedBodyOfMatchedStatement(t *testing.T) {
	const p = "@@\nvar x expression\n@@\n if x {\n   ...\n-  return nil\n+  return errFor(x)\n }\n"
	const src = `package p

func f() error {
	if a {
		if b {
			return nil
		}
		return nil
	}
	return nil
}
`
	const want = `package p

func f() error {
	if a {
		if b {
			return errFor(b)
		}
		return errFor(a)
	}
	return nil
}
`
	c03Expect(t, p, src, want)
}

// (b') same with "for ...".
func TestC03Finding1_SiteInsideElidedBodyOfMatchedFor(t *testing.T) {
	const p = "@@\nvar x expression\n@@\n for ... {\n-  foo(x)\n+  bar(x, x)\n   ...\n }\n"
	const src = `package p

func f() {
	for i := 0; i < 3; i++ {
		foo(i)
		for _, j := range js {
			foo(j)
			more()
		}
	}
}
`
	const want = `package p

func f() {
	for i := 0; i < 3; i++ {
		bar(i, i)
		for _, j := range js {
			bar(j, j)
			more()
		}
	}
}
`
	c03Expect(t, p, src, want)
}
