package patch

// Finding 2 (C04): the position chosen for an explicit element inside one
// elided list is never revisited when a *different* list of the same pattern
// (a nested list, or a sibling list such as the function body) later fails
// because of the metavariable binding made by that choice. A choice of runs
// that makes every explicit element match exists, but no match is reported.
//
// Goes in: patch/ (package patch). Uses applyC04 from finding1_test.go.

import (
	"strings"
	"testing"
)

func TestFinding2_SiblingLists_ParamsThenBody(t *testing.T) {
	patch := `@@
var x identifier
@@
 func f(
   ...,
   x T,
   ...,
 ) {
   ...
-  use(x)
+  use2(x)
   ...
 }
`
	// Control: binding x to the first candidate works.
	got, err := applyC04(t, patch, "package p\n\nfunc f(a T, b T) {\n\tuse(a)\n}\n")
	if err != nil {
		t.Fatal(err)
	}
	if !strings.Contains(got, "use2(a)") {
		t.Fatalf("control case not rewritten:\n%s", got)
	}

	// x must be bound to the second T parameter.
	got, err = applyC04(t, patch, "package p\n\nfunc f(a T, b T) {\n\tuse(b)\n}\n")
	if err != nil {
		t.Fatal(err)
	}
	if !strings.Contains(got, "use2(b)") {
		t.Errorf("pattern did not match although runs [a T] / [] for the "+
			"parameter list make every explicit element match; got:\n%s", got)
	}
}

func TestFinding2_NestedList(t *testing.T) {
	patch := `@@
var X expression
@@
-f(g(..., X, ...), X)
+h(X)
`
	got, err := applyC04(t, patch, "package p\n\nfunc _() {\n\tf(g(1, 2), 1)\n}\n")
	if err != nil {
		t.Fatal(err)
	}
	if !strings.Contains(got, "h(1)") {
		t.Fatalf("control case not rewritten:\n%s", got)
	}

	got, err = applyC04(t, patch, "package p\n\nfunc _() {\n\tf(g(1, 2), 2)\n}\n")
	if err != nil {
		t.Fatal(err)
	}
	if !strings.Contains(got, "h(2)") {
		t.Errorf("pattern did not match although runs [1] / [] inside g(...) "+
			"make every explicit element match; got:\n%s", got)
	}
}
