package engine

// C13: a patch means the same however it is laid out.
//
// Differential harness over the real pipeline: one catalogue patch is run in
// its original layout and in a transformed layout (parse.Parse -> Compile ->
// Match -> Replace for every change, in order) on two copies of one target
// file whose site leaves are the same solver variables. The transformed text
// contains solver-chosen bytes where the transformation has freedom (comment
// text, change name, new metavariable name, kind of blank character); where
// the transformation is applied is a selector. Obligations: the transformed
// patch is accepted; every change matches in one layout iff it matches in
// the other; the rewritten files are syntactically identical; the reported
// descriptions are exactly the '#' lines directly above each header.

import (
	"fmt"
	"go/ast"
	"go/parser"
	"go/token"
	"reflect"
	"strings"

	"github.com/uber-go/gopatch/internal/parse"
	"github.com/uber-go/gopatch/internal/zzverif/nd"
)

var c13Cases = []faCase{
	{name: "grouped-metavars",
		patch: "@@\nvar a, b expression\n@@\n-swap(a, b)\n+swap(b, a)\n",
		minus: "package p\n\nvar v = ⟦swap(«a:1», «b:x.y»)⟧\n\nfunc f() int { return ⟦swap(«a:g(2)», «b:h»)⟧ }\n"},
	{name: "two-changes-with-descriptions",
		patch: "# first change\n@@\nvar x expression\n@@\n-foo(x)\n+bar(x)\n\n# second\n# change\n@ second @\nvar y identifier\n@@\n-y.Lock()\n+lock(y)\n",
		minus: "package p\n\nfunc f() {\n\tuse(⟦foo(«x:1»)⟧)\n\tmu.Lock()\n\t_ = ⟦foo(«x:a.b»)⟧\n}\n"},
	{name: "stmts-ending-in-context-elision",
		patch: "@@\nvar x identifier\n@@\n x := open()\n ...\n-x.Close()\n+closeQuietly(x)\n ...\n",
		minus: "package p\n\nfunc f() {\n\t⟦«x:fd» := open()\n\tuse(«x:fd»)\n\tlog(\"mid\")\n\t«x:fd».Close()\n\tdone()\n\tbye()⟧\n}\n"},
	{name: "func-with-dots",
		patch: "@@\nvar f identifier\n@@\n func f(...) {\n   ...\n-  old()\n+  renewed()\n   ...\n }\n",
		minus: "package p\n\n⟦func «f:run»(a int, b string) {\n\tpre(a)\n\told()\n\tpost(b)\n}⟧\n\nfunc other() { old() }\n"},
	{name: "args-elision",
		patch: "@@\nvar x expression\n@@\n-foo(..., x)\n+bar(..., x)\n",
		minus: "package p\n\nvar v = ⟦foo(1, two, «x:3»)⟧\n\nvar w = ⟦foo(«x:k»)⟧\n"},
	{name: "import-guard",
		patch: "@@\nvar x expression\n@@\n import \"errors\"\n\n-errors.New(x)\n+fail(x)\n",
		minus: "package p\n\nimport \"errors\"\n\nvar e = ⟦errors.New(«x:\"boom\"»)⟧\n\nfunc f() error { return ⟦errors.New(«x:msg»)⟧ }\n\nvar keep = errors.Is\n"},
	{name: "struct-field",
		patch: "@@\nvar T identifier\n@@\n type T struct {\n   ...\n-  old int\n+  renewed int\n   ...\n }\n",
		minus: "package p\n\n⟦type «T:Conf» struct {\n\ta string\n\told int\n\tb bool\n}⟧\n"},
	{name: "assign-with-leading-elision",
		patch: "@@\n@@\n-..., err := f()\n+..., err = f()\n",
		minus: "package p\n\nfunc g() {\n\t⟦«d1:a, b», err := f()⟧\n\tuse(a, b, err)\n}\n\nfunc h() {\n\tpre()\n\t⟦«d1:c», err := f()⟧\n}\n"},
	{name: "raw-string-across-context-line",
		patch: "@@\nvar x expression\n@@\n-old(x, `a\n+renewed(x, `a\n b`)\n",
		minus: "package p\n\nvar v = ⟦old(«x:1», `a\n b`)⟧\n\nvar w = ⟦old(«x:k.l», `a\n b`)⟧\n"},
	{name: "multi-line-call",
		patch: "@@\nvar a, b expression\nvar c expression\n@@\n-pick(a,\n-  b, c)\n+pick2(c,\n+  a)\n",
		minus: "package p\n\nvar v = ⟦pick(«a:1», «b:x», «c:z[0]»)⟧\n"},
}

// ---- line model of a patch file ----

const (
	c13Comment = iota
	c13Blank
	c13Open  // "@@" or "@ name @" starting a change
	c13Meta  // metavariable section line
	c13Close // "@@" ending the metavariable section
	c13Body
)

type c13Line struct {
	text string
	kind int
}

func c13Split(patch string) []c13Line {
	var out []c13Line
	raw := strings.Split(strings.TrimSuffix(patch, "\n"), "\n")
	state := 0 // 0 = before a header / in a body, 1 = in the metavariable section
	for _, t := range raw {
		l := c13Line{text: t}
		tr := strings.TrimLeft(t, " \t")
		switch {
		case strings.HasPrefix(tr, "#"):
			l.kind = c13Comment
		case state == 1 && t == "@@":
			l.kind = c13Close
			state = 0
		case state == 1:
			l.kind = c13Meta
		case strings.HasPrefix(t, "@"):
			l.kind = c13Open
			state = 1
		case strings.TrimSpace(t) == "" && c13NoChangeYet(out):
			l.kind = c13Blank
		default:
			l.kind = c13Body
		}
		out = append(out, l)
	}
	return out
}

func c13NoChangeYet(ls []c13Line) bool {
	for _, l := range ls {
		if l.kind == c13Open {
			return false
		}
	}
	return true
}

func c13Join(ls []c13Line) string {
	var b strings.Builder
	for _, l := range ls {
		b.WriteString(l.text)
		b.WriteString("\n")
	}
	return b.String()
}

// c13Descriptions is the reference: per change, the run of '#' lines directly above its header.
func c13Descriptions(ls []c13Line, texts map[int]string) [][]string {
	var out [][]string
	for i, l := range ls {
		if l.kind != c13Open {
			continue
		}
		j := i
		for j > 0 && ls[j-1].kind == c13Comment {
			j--
		}
		var d []string
		for k := j; k < i; k++ {
			if t, ok := texts[k]; ok {
				d = append(d, t)
			} else {
				d = append(d, strings.TrimSpace(strings.TrimLeft(ls[k].text, " \t")[1:]))
			}
		}
		out = append(out, d)
	}
	return out
}

func c13Letters(name string, n int) string {
	s := nd.Str(name, n)
	for i := 0; i < len(s); i++ {
		nd.Assume(nd.And(s[i] >= 'a', s[i] <= 'z'))
	}
	return s
}

func c13Insert(ls []c13Line, at int, l c13Line) []c13Line {
	out := append([]c13Line{}, ls[:at]...)
	out = append(out, l)
	return append(out, ls[at:]...)
}

func c13HasSign(t string) bool { return len(t) > 0 && (t[0] == ' ' || t[0] == '-' || t[0] == '+') }

func c13IsWord(b byte) bool {
	return b == '_' || b >= 'a' && b <= 'z' || b >= 'A' && b <= 'Z' || b >= '0' && b <= '9'
}

// c13ReplaceWord replaces whole-word occurrences of old (concrete text) by repl.
func c13ReplaceWord(s, old, repl string) string {
	var b strings.Builder
	for i := 0; i < len(s); {
		if strings.HasPrefix(s[i:], old) && (i == 0 || !c13IsWord(s[i-1])) && (i+len(old) == len(s) || !c13IsWord(s[i+len(old)])) {
			b.WriteString(repl)
			i += len(old)
			continue
		}
		b.WriteByte(s[i])
		i++
	}
	return b.String()
}

// c13MetaNames: declared metavariables of all changes, in order (from "var a, b T" lines).
func c13MetaNames(ls []c13Line) []string {
	var names []string
	for _, l := range ls {
		if l.kind != c13Meta || len(l.text) < 4 || nd.IsSym(l.text) {
			continue // not a declaration (an inserted blank or whitespace-only line)
		}
		for _, decl := range strings.Split(l.text, ";") {
			f := strings.Fields(strings.ReplaceAll(decl, ",", " "))
			if len(f) >= 3 && f[0] == "var" {
				names = append(names, f[1:len(f)-1]...)
			}
		}
	}
	return names
}

const c13Kinds = 9

// c13Transform applies the kind-th layout transformation at a solver/selector
// chosen place; texts maps line indexes of inserted comments to their
// (symbolic) description text. ok=false: not applicable to this patch.
func c13Transform(ls []c13Line, kind int) (out []c13Line, texts map[int]string, what string, ok bool) {
	texts = map[int]string{}
	switch kind {
	case 0: // a '#' comment line anywhere
		at := nd.Choose("at", len(ls)+1)
		body := c13Letters("cmt", 2)
		form := nd.Choose("cmtform", 4)
		pre := []string{"#", "# ", "  #", "#\t"}[form]
		out = c13Insert(ls, at, c13Line{text: pre + body, kind: c13Comment})
		texts[at] = body
		if form == 2 {
			// an indented comment: the property does not say whether the
			// description keeps the '#'; only its text is required
			texts[at] = "?" + body
		}
		return out, texts, fmt.Sprintf("comment line inserted before line %d", at), true
	case 1: // a blank or whitespace-only line anywhere
		at := nd.Choose("at", len(ls)+1)
		ticks := 0
		for _, l := range ls[:at] {
			if l.kind == c13Body && !strings.HasPrefix(l.text, "+") { // the '-' side's view of the text
				ticks += strings.Count(l.text, "`")
			}
		}
		if ticks%2 == 1 {
			// inside a raw string literal that spans lines a blank line is part of the string
			return nil, nil, "", false
		}
		t := ""
		if nd.Choose("blankform", 2) == 1 {
			ws := nd.Byte("ws")
			nd.Assume(nd.Or(ws == ' ', ws == '\t'))
			t = string([]byte{ws})
		}
		k := c13Body
		if at == 0 || c13NoChangeYet(ls[:at]) {
			k = c13Blank
		} else if at > 0 && (ls[at-1].kind == c13Open || ls[at-1].kind == c13Meta) {
			k = c13Meta
		}
		if k == c13Meta && t != "" {
			// a metavariable line holding a lone tab/space is blank for go/scanner too
			k = c13Meta
		}
		out = c13Insert(ls, at, c13Line{text: t, kind: k})
		return out, texts, fmt.Sprintf("blank line inserted before line %d", at), true
	case 2: // name an unnamed change
		var opens []int
		for i, l := range ls {
			if l.kind == c13Open && l.text == "@@" {
				opens = append(opens, i)
			}
		}
		if len(opens) == 0 {
			return nil, nil, "", false
		}
		i := opens[nd.Choose("which", len(opens))]
		name := "n" + c13Letters("name", 2)
		sp := []string{" ", "", "  "}[nd.Choose("nameform", 3)]
		out = append([]c13Line{}, ls...)
		out[i].text = "@" + sp + name + " @"
		return out, texts, "change named", true
	case 3: // an unchanged elision-free line written as a -/+ pair
		var el []int
		for i, l := range ls {
			if l.kind == c13Body && strings.HasPrefix(l.text, " ") && strings.TrimSpace(l.text) != "" && !strings.Contains(l.text, "...") {
				el = append(el, i)
			}
		}
		if len(el) == 0 {
			return nil, nil, "", false
		}
		i := el[nd.Choose("which", len(el))]
		out = append([]c13Line{}, ls[:i]...)
		out = append(out, c13Line{text: "-" + ls[i].text[1:], kind: c13Body}, c13Line{text: "+" + ls[i].text[1:], kind: c13Body})
		out = append(out, ls[i+1:]...)
		return out, texts, fmt.Sprintf("context line %d written as a pair", i), true
	case 4: // re-indent the pattern on both sides
		for _, l := range ls {
			if l.kind == c13Body && strings.Count(l.text, "`")%2 == 1 {
				// a raw string literal spans lines: indenting its lines changes the string, not the layout
				return nil, nil, "", false
			}
		}
		ind := []string{" ", "  ", "\t"}[nd.Choose("indent", 3)]
		out = append([]c13Line{}, ls...)
		for i, l := range out {
			if l.kind == c13Body && len(l.text) > 0 {
				if c13HasSign(l.text) {
					out[i].text = l.text[:1] + ind + l.text[1:]
				} else { // a context line written without the leading space
					out[i].text = ind + l.text
				}
			}
		}
		return out, texts, "pattern re-indented", true
	case 5: // regroup / reorder / join metavariable declarations
		var ms []int
		for i, l := range ls {
			if l.kind == c13Meta && len(l.text) > 4 && !nd.IsSym(l.text) && strings.HasPrefix(l.text, "var ") && !strings.Contains(l.text, ";") {
				ms = append(ms, i)
			}
		}
		if len(ms) == 0 {
			return nil, nil, "", false
		}
		i := ms[nd.Choose("which", len(ms))]
		f := strings.Fields(strings.ReplaceAll(ls[i].text, ",", " "))
		typ := f[len(f)-1]
		names := f[1 : len(f)-1]
		form := nd.Choose("metaform", 4)
		out = append([]c13Line{}, ls[:i]...)
		switch {
		case form == 0 && len(names) >= 2: // one declaration per name
			for _, n := range names {
				out = append(out, c13Line{text: "var " + n + " " + typ, kind: c13Meta})
			}
		case form == 1 && len(names) >= 2: // reversed
			rev := ""
			for k := len(names) - 1; k >= 0; k-- {
				rev += names[k]
				if k > 0 {
					rev += ", "
				}
			}
			out = append(out, c13Line{text: "var " + rev + " " + typ, kind: c13Meta})
		case form == 2 && len(names) >= 2: // ';' separated on one line
			t := ""
			for k, n := range names {
				if k > 0 {
					t += "; "
				}
				t += "var " + n + " " + typ
			}
			out = append(out, c13Line{text: t, kind: c13Meta})
		case form == 3 && i+1 < len(ls) && ls[i+1].kind == c13Meta && len(ls[i+1].text) > 4 && !nd.IsSym(ls[i+1].text) && strings.HasPrefix(ls[i+1].text, "var "): // swap two declarations
			out = append(out, ls[i+1], ls[i])
			out = append(out, ls[i+2:]...)
			return out, texts, "metavariable declarations reordered", true
		case form == 0: // extra spacing
			out = append(out, c13Line{text: "var  " + strings.Join(names, " ,  ") + "   " + typ, kind: c13Meta})
		default:
			return nil, nil, "", false
		}
		out = append(out, ls[i+1:]...)
		return out, texts, "metavariable declarations regrouped", true
	case 6: // rename a metavariable consistently (not one that names an import)
		names := c13MetaNames(ls)
		if len(names) == 0 {
			return nil, nil, "", false
		}
		old := names[nd.Choose("which", len(names))]
		for _, l := range ls {
			if l.kind == c13Body && (strings.Contains(l.text, old+" \"") || strings.Contains(l.text, old+" `")) {
				return nil, nil, "", false // the metavariable names an import: its spelling is documented to matter
			}
		}
		repl := "q" + c13Letters("newname", 2)
		out = append([]c13Line{}, ls...)
		inChange := false
		// rename inside the change that declares it only: find its extent
		lo, hi := 0, len(ls)
		for i, l := range ls {
			if l.kind == c13Open {
				if inChange {
					hi = i
					break
				}
				lo = i
			}
			if l.kind == c13Meta && strings.Contains(" "+strings.ReplaceAll(l.text, ",", " ")+" ", " "+old+" ") {
				inChange = true
			}
		}
		for i := lo; i < hi; i++ {
			if out[i].kind == c13Meta || out[i].kind == c13Body {
				out[i].text = c13ReplaceWord(out[i].text, old, repl)
			}
		}
		return out, texts, "metavariable " + old + " renamed", true
	case 7: // wrap a line after its first comma
		var el []int
		for i, l := range ls {
			if l.kind == c13Body && c13HasSign(l.text) && strings.Contains(l.text, ", ") && !strings.Contains(l.text, "...") && !strings.Contains(l.text, "\"") && !strings.Contains(l.text, "`") && !strings.Contains(l.text, "'") {
				el = append(el, i)
			}
		}
		if len(el) == 0 {
			return nil, nil, "", false
		}
		i := el[nd.Choose("which", len(el))]
		k := strings.Index(ls[i].text, ", ")
		out = append([]c13Line{}, ls[:i]...)
		out = append(out, c13Line{text: ls[i].text[:k+1], kind: c13Body}, c13Line{text: ls[i].text[:1] + "    " + ls[i].text[k+2:], kind: c13Body})
		out = append(out, ls[i+1:]...)
		return out, texts, fmt.Sprintf("line %d wrapped", i), true
	case 8: // no newline at the end of the patch file
		return ls, texts, "final newline dropped", true
	}
	return nil, nil, "", false
}

// c13Prepare compiles text (which may hold symbolic bytes) and parses a second copy of the target.
func c13Prepare(like *faRun, text string) (*faRun, error) {
	r := &faRun{c: like.c, fset: token.NewFileSet()}
	pp, err := parse.Parse(r.fset, "p.patch", []byte(text))
	if err != nil {
		return nil, err
	}
	r.prog, err = Compile(r.fset, pp)
	if err != nil {
		return nil, err
	}
	r.src, r.holes, r.sites = like.src, like.holes, like.sites
	r.file, err = parser.ParseFile(r.fset, "a.go", r.src, parser.ParseComments)
	if err != nil {
		panic(err)
	}
	r.base = r.fset.File(r.file.Pos()).Base()
	for k, s := range r.sites {
		want := reflect.TypeOf(like.locs[k].node)
		stmts := like.locs[k].stmts
		r.locs = append(r.locs, faFind(r.file, r.base, s, func(n ast.Node) bool {
			if stmts {
				switch n.(type) {
				case *ast.BlockStmt, *ast.CaseClause, *ast.CommClause:
					return reflect.TypeOf(n) == want
				}
				return false
			}
			return reflect.TypeOf(n) == want
		}))
	}
	return r, nil
}

// copySite gives site k of r the symbolic leaves of site k of src.
func (r *faRun) copySite(src *faRun, k int) {
	w := &faWalker{base: r.base, holes: r.holes, ords: map[int]int{}, roots: map[int]reflect.Value{}}
	loc := r.locs[k]
	if loc.stmts {
		var list []ast.Stmt
		switch n := loc.node.(type) {
		case *ast.BlockStmt:
			list = n.List
		case *ast.CaseClause:
			list = n.Body
		case *ast.CommClause:
			list = n.Body
		}
		for i, st := range list {
			lo, hi := int(st.Pos())-r.base, int(st.End())-r.base
			if lo >= r.sites[k].lo && hi <= r.sites[k].hi {
				w.walk(reflect.ValueOf(st), -1, fmt.Sprintf("stmt[%d]", i))
			}
		}
	} else {
		w.walk(reflect.ValueOf(loc.node), -1, "site")
	}
	from := src.leaves[k]
	if len(from) != len(w.leaves) {
		panic("harness: the two copies of the target differ")
	}
	for i, l := range w.leaves {
		m := from[i]
		switch m.kind {
		case faIdent, faLit:
			if m.symS != "" {
				l.addr.SetString(m.symS)
			}
		default:
			l.addr.SetInt(int64(m.symI))
		}
	}
}

// c13StrsEq: got equals want; a want starting with '?' only fixes the text
// after an optional '#'.
func c13StrsEq(got, want []string) bool {
	if len(got) != len(want) {
		return false
	}
	r := true
	for i := range got {
		if strings.HasPrefix(want[i], "?") {
			w := want[i][1:]
			r = nd.And(r, nd.Or(nd.StrEq(got[i], w), nd.StrEq(got[i], "#"+w)))
			continue
		}
		r = nd.And(r, nd.StrEq(got[i], want[i]))
	}
	return r
}

// VerifC13Layout is the entry point. TWO=1 composes two transformations.
func VerifC13Layout() {
	c := c13Cases[nd.Choose("case", len(c13Cases))]
	ls := c13Split(c.patch)
	kind := nd.Choose("transform", c13Kinds)
	vs, texts, what, ok := c13Transform(ls, kind)
	nd.Assume(ok)
	if nd.Param("TWO", 0) == 1 {
		kind2 := nd.Choose("transform2", c13Kinds-1) // the final-newline variant only once
		nd.Assume(!(kind == 6 && kind2 >= 5 && kind2 <= 7)) // text transformations need concrete text: they compose with a renaming as the FIRST step only
		nd.Assume(kind >= 2) // line insertions are composed as the second step only (same variants, half the cost)        // two insertions at independent places square the cost; each is covered alone and with every in-place transformation
		vs2, texts2, what2, ok2 := c13Transform(vs, kind2)
		nd.Assume(ok2)
		// line indexes of the first transformation's comments shift if the second inserted above them
		if len(texts) > 0 && len(vs2) != len(vs) {
			nd.Assume(false) // keep the reference simple: comment insertion composes with in-place transformations only
		}
		for k, v := range texts2 {
			texts[k] = v
		}
		vs, what = vs2, what+" + "+what2
	}
	text := c13Join(vs)
	if kind == 8 {
		text = strings.TrimSuffix(text, "\n")
	}
	name := c.name + " [" + what + "]"

	rA := faPrepare(c)
	rB, err := c13Prepare(rA, text)
	nd.Assert(err == nil, name+": the re-laid-out patch is rejected")
	if err != nil {
		nd.Reach("rejected")
		return
	}
	nd.Assert(len(rA.prog.Changes) == len(rB.prog.Changes), name+": number of changes differs")
	if len(rA.prog.Changes) != len(rB.prog.Changes) {
		return
	}
	for k := range rA.sites {
		rA.symboliseSite(k)
		rB.copySite(rA, k)
	}
	// descriptions: exactly the '#' lines directly above each header
	wantDesc := c13Descriptions(vs, texts)
	for i, ch := range rB.prog.Changes {
		nd.Assert(c13StrsEq(ch.Comments, wantDesc[i]), fmt.Sprintf("%s: description of change %d is not the '#' lines directly above its header", name, i))
	}
	fa, fb := rA.file, rB.file
	for i := range rA.prog.Changes {
		ca, cb := rA.prog.Changes[i], rB.prog.Changes[i]
		da, okA := ca.Match(fa)
		db, okB := cb.Match(fb)
		nd.Assert(okA == okB, fmt.Sprintf("%s: change %d matches in one layout only", name, i))
		if okA != okB {
			return
		}
		if !okA {
			continue
		}
		nd.Assert(c01CountMatches(da) == c01CountMatches(db), fmt.Sprintf("%s: change %d rewrites a different number of sites", name, i))
		oa, errA := ca.Replace(da, NewChangelog())
		ob, errB := cb.Replace(db, NewChangelog())
		nd.Assert((errA == nil) == (errB == nil), fmt.Sprintf("%s: change %d fails in one layout only", name, i))
		if errA != nil || errB != nil {
			return
		}
		fa, fb = oa, ob
	}
	nd.Assert(len(fa.Decls) == len(fb.Decls), name+": results differ in their declarations")
	nd.Assert(faEqual(reflect.ValueOf(fa.Decls), reflect.ValueOf(fb.Decls)), name+": the two layouts rewrite the file differently")
	nd.Assert(nd.StrEq(fa.Name.Name, fb.Name.Name), name+": package clause differs")
	nd.Reach("compared")
}

// VerifC13LayoutTestdata: the same differential oracle over the repository's
// own patches: every single-patch testdata case (patch + its golden input
// file, regenerated from the current tree by tools/tdcases.py) is run in its
// original and in a transformed layout on two copies of its input. The
// targets are concrete; the inserted bytes (comment text, names, blank
// character) are solver-ranged. STRIDE/OFFSET subsample the cases in the
// quick tier.
func VerifC13LayoutTestdata() {
	stride, offset := nd.Param("STRIDE", 1), nd.Param("OFFSET", 0)
	var idx []int
	for i := range tdCases {
		if i%stride == offset%stride {
			idx = append(idx, i)
		}
	}
	c := tdCases[idx[nd.Choose("case", len(idx))]]
	ls := c13Split(c.patch)
	kind := nd.Choose("transform", c13Kinds)
	vs, texts, what, ok := c13Transform(ls, kind)
	nd.Assume(ok)
	text := c13Join(vs)
	if kind == 8 {
		text = strings.TrimSuffix(text, "\n")
	}
	name := c.name + " [" + what + "]"

	type side struct {
		fset *token.FileSet
		prog *Program
		file *ast.File
	}
	load := func(patch string) (*side, error) {
		s := &side{fset: token.NewFileSet()}
		pp, err := parse.Parse(s.fset, "p.patch", []byte(patch))
		if err != nil {
			return nil, err
		}
		if s.prog, err = Compile(s.fset, pp); err != nil {
			return nil, err
		}
		if s.file, err = parser.ParseFile(s.fset, "a.go", c.src, parser.ParseComments); err != nil {
			panic("harness: testdata input does not parse: " + c.name)
		}
		return s, nil
	}
	a, errA := load(c.patch)
	nd.Assume(errA == nil) // the suite's negative cases (patches that must be rejected) have no meaning to preserve
	b, errB := load(text)
	nd.Assert(errB == nil, name+": the re-laid-out patch is rejected")
	if errB != nil {
		nd.Reach("rejected")
		return
	}
	nd.Assert(len(a.prog.Changes) == len(b.prog.Changes), name+": number of changes differs")
	if len(a.prog.Changes) != len(b.prog.Changes) {
		return
	}
	wantDesc := c13Descriptions(vs, texts)
	for i, ch := range b.prog.Changes {
		nd.Assert(c13StrsEq(ch.Comments, wantDesc[i]), fmt.Sprintf("%s: description of change %d is not the '#' lines directly above its header", name, i))
	}
	fa, fb := a.file, b.file
	for i := range a.prog.Changes {
		da, okA := a.prog.Changes[i].Match(fa)
		db, okB := b.prog.Changes[i].Match(fb)
		nd.Assert(okA == okB, fmt.Sprintf("%s: change %d matches in one layout only", name, i))
		if okA != okB {
			return
		}
		if !okA {
			continue
		}
		nd.Assert(c01CountMatches(da) == c01CountMatches(db), fmt.Sprintf("%s: change %d rewrites a different number of sites", name, i))
		oa, e1 := a.prog.Changes[i].Replace(da, NewChangelog())
		ob, e2 := b.prog.Changes[i].Replace(db, NewChangelog())
		nd.Assert((e1 == nil) == (e2 == nil), fmt.Sprintf("%s: change %d fails in one layout only", name, i))
		if e1 != nil || e2 != nil {
			return
		}
		fa, fb = oa, ob
	}
	nd.Assert(len(fa.Decls) == len(fb.Decls), name+": results differ in their declarations")
	nd.Assert(faEqual(reflect.ValueOf(fa.Decls), reflect.ValueOf(fb.Decls)), name+": the two layouts rewrite the file differently")
	nd.Assert(nd.StrEq(fa.Name.Name, fb.Name.Name), name+": package clause differs")
	nd.Reach("compared")
}
