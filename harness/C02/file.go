package engine

import (
	"reflect"

	"github.com/uber-go/gopatch/internal/zzverif/nd"
)

// VerifC02File: every site is judged on its own bindings.
func VerifC02File() {
	c := c02FileCases[nd.Choose("case", len(c02FileCases))]
	r := faPrepare(c)
	for k := range r.sites {
		r.symboliseSite(k)
	}
	ch := r.prog.Changes[0]
	d, ok := ch.Match(r.file)
	anyWant, n := false, 0
	for k := range r.sites {
		anyWant = nd.Or(anyWant, r.want[k])
		n = n + nd.Ite(r.want[k], 1, 0)
	}
	nd.Assert(nd.Iff(ok, anyWant), c.name+": the file matches iff some site is an instance on its own bindings")
	if !ok {
		nd.Reach("nomatch")
		return
	}
	nd.Assert(c01CountMatches(d) == n, c.name+": a site's verdict depends on bindings made at another site")
	every := true
	for k := range r.sites {
		if !r.want[k] {
			every = false
		}
	}
	if every {
		out, err := ch.Replace(d, NewChangelog())
		nd.Assert(err == nil, c.name+": Replace failed")
		if err == nil {
			exp := r.expectedFile()
			nd.Assert(faEqual(reflect.ValueOf(out.Decls), reflect.ValueOf(exp.Decls)), c.name+": each site must be rewritten with its own bindings")
		}
		nd.Reach("replaced")
	}
}
