package patch

// finding1_lib_test.go -- goes in the patch/ directory (package patch).
//
// Library flavour of finding 1: patch.Parse accepts the patch, and
// (*File).Apply panics instead of returning an error.

import "testing"

func TestFinding1_Library_DotsInNonListPositionOnPlusSide(t *testing.T) {
	f, err := Parse("p.patch", []byte("@@\nvar x expression\n@@\n-foo(x)\n+bar(x + ...)\n"))
	if err != nil {
		return // rejecting the patch is fine
	}

	defer func() {
		if p := recover(); p != nil {
			t.Fatalf("Apply panicked instead of returning an error: %v", p)
		}
	}()
	out, err := f.Apply("in.go", []byte("package p\n\nfunc f() {\n\tfoo(1)\n}\n"))
	if err == nil {
		t.Fatalf("expected an error, got output:\n%s", out)
	}
}
