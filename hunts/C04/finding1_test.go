package patch

// Finding 1 (C04): a '+' line that precedes the '-' line. The '...' is the
// only elision on each side, so the elided arguments must reappear; instead
// they are dropped (expression patch) or gopatch panics (statement patch).
//
// Goes in: patch/ (package patch).

import (
	"strings"
	"testing"
)

func applyC04(t *testing.T, patchSrc, goSrc string) (out string, err error) {
	t.Helper()
	defer func() {
		if r := recover(); r != nil {
			t.Fatalf("gopatch panicked: %v", r)
		}
	}()
	f, perr := Parse("c04.patch", []byte(patchSrc))
	if perr != nil {
		return "", perr
	}
	got, aerr := f.Apply("c04.go", []byte(goSrc))
	return string(got), aerr
}

func TestFinding1_PlusLineBeforeMinusLine_DropsElidedArgs(t *testing.T) {
	patch := "@@\n@@\n+bar(...)\n-foo(...)\n"
	src := "package p\n\nfunc f() {\n\tfoo(1, 2, 3)\n}\n"

	got, err := applyC04(t, patch, src)
	if err != nil {
		t.Fatalf("unexpected error: %v", err)
	}
	if !strings.Contains(got, "bar(1, 2, 3)") {
		t.Errorf("elided arguments were not reproduced; got:\n%s", got)
	}
}

func TestFinding1_PlusLineBeforeMinusLine_StatementPatchPanics(t *testing.T) {
	patch := "@@\n@@\n+pre()\n+bar(...)\n-foo(...)\n"
	src := "package p\n\nfunc f() {\n\ta()\n\tb()\n\tfoo(1, 2, 3)\n\tc()\n}\n"

	got, err := applyC04(t, patch, src)
	if err != nil {
		t.Fatalf("unexpected error: %v", err)
	}
	if !strings.Contains(got, "bar(1, 2, 3)") {
		t.Errorf("elided arguments were not reproduced; got:\n%s", got)
	}
}
