package patch

// Package directory: patch/   (needs helpers_c03_test.go next to it)
//
// Finding 3: when an instantiated operand of the pointer-indirection operator
// '*' is a binary expression, no parentheses are produced, so the output is
// different code from the '+' pattern instantiated with the captured code.

import "testing"

// '*' is in the '+' pattern, the binary expression is what the metavariable stood for.
func TestC03Finding3_StarInPattern(t *testing.T) {
	const p = "@@\nvar x expression\n@@\n-foo(x)\n+bar(*x)\n"
	const src = "package p\n\nfunc f() {\n\tfoo(p)\n\tfoo(a + b)\n\tfoo(c || d)\n}\n"
	const want = "package p\n\nfunc f() {\n\tbar(*p)\n\tbar(*(a + b))\n\tbar(*(c || d))\n}\n"
	c03Expect(t, p, src, want) // got: bar(*a + b), bar(*c || d)
}

// '*' is in the file around the site, the binary expression is the '+' pattern.
func TestC03Finding3_StarAroundSite(t *testing.T) {
	const p = "@@\nvar x, y expression\n@@\n-at(x, y)\n+x + y\n"
	const src = "package p\n\nfunc f() {\n\t_ = *at(p, 1)\n\t_ = -at(p, 1)\n\t_ = at(p, 1).f\n}\n"
	const want = "package p\n\nfunc f() {\n\t_ = *(p + 1)\n\t_ = -(p + 1)\n\t_ = (p + 1).f\n}\n"
	c03Expect(t, p, src, want) // got: _ = *p + 1 (the other two lines are right)
}
