package engine

// Translator validation: every testdata (patch, input) pair is pushed
// concretely through the real parse -> Compile -> Match -> Replace ->
// ChangedIntervals pipeline inside symgo and the structural digest of the
// result is compared with the digest computed natively (setup_cmd).

import (
	"fmt"
	"go/ast"
	"go/parser"
	"go/token"
	"reflect"
	"strings"

	"github.com/uber-go/gopatch/internal/parse"
	"github.com/uber-go/gopatch/internal/zzverif/nd"
)

type t01Case struct{ name, patch, src string }

func t01Dump(b *strings.Builder, v reflect.Value, depth int) {
	if depth > 60 {
		b.WriteString("<deep>")
		return
	}
	switch v.Kind() {
	case reflect.Invalid:
		b.WriteString("nil")
	case reflect.Interface, reflect.Ptr:
		if v.IsNil() {
			b.WriteString("nil")
			return
		}
		if v.Kind() == reflect.Ptr {
			switch v.Type() {
			case reflect.TypeOf((*ast.Object)(nil)), reflect.TypeOf((*ast.Scope)(nil)):
				b.WriteString("obj")
				return
			}
		}
		t01Dump(b, v.Elem(), depth+1)
	case reflect.Struct:
		b.WriteString(v.Type().Name() + "{")
		for i := 0; i < v.NumField(); i++ {
			if i > 0 {
				b.WriteString(",")
			}
			t01Dump(b, v.Field(i), depth+1)
		}
		b.WriteString("}")
	case reflect.Slice:
		if v.IsNil() {
			b.WriteString("nil")
			return
		}
		b.WriteString("[")
		for i := 0; i < v.Len(); i++ {
			if i > 0 {
				b.WriteString(",")
			}
			t01Dump(b, v.Index(i), depth+1)
		}
		b.WriteString("]")
	case reflect.String:
		b.WriteString(fmt.Sprintf("%q", v.String()))
	case reflect.Bool:
		if v.Bool() {
			b.WriteString("T")
		} else {
			b.WriteString("F")
		}
	case reflect.Int:
		if v.Type() == reflect.TypeOf(token.Pos(0)) {
			if v.Int() != 0 {
				b.WriteString("P")
			} else {
				b.WriteString("0")
			}
			return
		}
		b.WriteString(fmt.Sprintf("%d", v.Int()))
	case reflect.Map:
		b.WriteString("map")
	default:
		b.WriteString("?" + v.Kind().String())
	}
}

func t01Run(c t01Case) (res string) {
	defer func() {
		if r := recover(); r != nil {
			res = "PANIC"
		}
	}()
	fset := token.NewFileSet()
	prog, err := parse.Parse(fset, "p.patch", []byte(c.patch))
	if err != nil {
		return "parse-err"
	}
	cp, err := Compile(fset, prog)
	if err != nil {
		return "compile-err"
	}
	f, err := parser.ParseFile(fset, "a.go", c.src, parser.ParseComments)
	if err != nil {
		return "src-err"
	}
	base := fset.File(f.Pos()).Base()
	out := f
	var b strings.Builder
	for k, ch := range cp.Changes {
		d, ok := ch.Match(out)
		if !ok {
			fmt.Fprintf(&b, "c%d:nomatch;", k)
			continue
		}
		cl := NewChangelog()
		out, err = ch.Replace(d, cl)
		if err != nil {
			return b.String() + "replace-err"
		}
		fmt.Fprintf(&b, "c%d:", k)
		for _, iv := range cl.ChangedIntervals() {
			s, e := int(iv.Start), int(iv.End)
			if s != 0 {
				s -= base
			}
			if e != 0 {
				e -= base
			}
			fmt.Fprintf(&b, "[%d,%d)", s, e)
		}
		b.WriteString(";")
	}
	t01Dump(&b, reflect.ValueOf(out), 0)
	return b.String()
}

// VerifT01Case compares the engine's result with the native digest.
func VerifT01Case() {
	k := nd.Choose("case", len(t01Cases))
	got := t01Run(t01Cases[k])
	if !nd.Symbolic() {
		return
	}
	nd.Assert(got == t01Want[k], "engine result differs from the native result for "+t01Cases[k].name)
	nd.Reach("done")
}

// T01Digests is called natively to produce the expected digests.
func T01Digests() []string {
	var out []string
	for _, c := range t01Cases {
		out = append(out, t01Run(c))
	}
	return out
}
