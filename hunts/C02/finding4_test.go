package patch_test

// Goes in: patch/ (package patch_test), i.e. /patch/finding4_test.go
//
// C02: "bindings made during a failed attempt never influence another
// attempt or another match site".
// A metavariable binding is a snapshot (matcher+replacer compiled from the
// matched value at match time). When a second match site lies inside the
// code a metavariable of an enclosing match site stands for, the enclosing
// site reproduces the stale snapshot and the rewrite of the inner site is
// lost. (The same inner site survives if it lies in a "..." of the
// enclosing site instead: foo(1, foo(2)) with -foo(x, ...) gives
// bar(1, bar(2)).)

import (
	"testing"

	"github.com/uber-go/gopatch/patch"
)

func TestC02Finding4_MatchSiteInsideBindingOfAnotherSite(t *testing.T) {
	p, err := patch.Parse("f4.patch", []byte(
		"@@\nvar x expression\n@@\n-foo(x)\n+bar(x)\n"))
	if err != nil {
		t.Fatal(err)
	}

	src := "package a\n\nvar _ = foo(foo(1))\n"
	want := "package a\n\nvar _ = bar(bar(1))\n"
	out, err := p.Apply("a.go", []byte(src))
	if err != nil {
		t.Fatal(err)
	}
	if string(out) != want {
		t.Errorf("got:\n%s\nwant:\n%s", out, want)
	}
}
