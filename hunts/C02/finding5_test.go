package patch_test

// Goes in: patch/ (package patch_test), i.e. /patch/finding5_test.go
//
// C02 (minor): per-import match state is keyed by the metavariable name
// (importMetavarKey(m.NameS)), not by the import. When one identifier
// metavariable names two imports and the first one matched an unnamed
// import, its "Unnamed" flag is also applied to the second import, although
// that one matched a named import: a new, unnamed copy of the second import
// is added to the file even though both imports are on context lines.

import (
	"testing"

	"github.com/uber-go/gopatch/patch"
)

func TestC02Finding5_ImportMetavarStateSharedBetweenImports(t *testing.T) {
	p, err := patch.Parse("f5.patch", []byte(
		"@@\nvar p identifier\n@@\n import p \"a\"\n import p \"b\"\n\n-foo()\n+bar()\n"))
	if err != nil {
		t.Fatal(err)
	}

	src := "package a\n\nimport (\n\tp \"b\"\n\t\"a\"\n)\n\nfunc f() {\n\tfoo()\n}\n"
	out, err := p.Apply("a.go", []byte(src))
	if err != nil {
		t.Fatal(err)
	}
	// Whether or not the change applies, the imports are context lines
	// and must be left alone.
	wantA := src
	wantB := "package a\n\nimport (\n\tp \"b\"\n\t\"a\"\n)\n\nfunc f() {\n\tbar()\n}\n"
	wantC := "package a\n\nimport (\n\t\"a\"\n\tp \"b\"\n)\n\nfunc f() {\n\tbar()\n}\n"
	if got := string(out); got != wantA && got != wantB && got != wantC {
		t.Errorf("imports on context lines were changed:\n%s", got)
	}
}
