package augment

import (
	"go/scanner"
	"go/token"

	"github.com/uber-go/gopatch/internal/zzverif/nd"
)

// Token-level model of go/scanner (mode 0): an arbitrary stream of real
// tokens, each in a fixed 12-byte slot, with automatic semicolon insertion
// at newlines and at EOF exactly as go/scanner does it, then EOF forever.
const c08Slot = 12

var (
	c08Stream  []token.Token
	c08NL      []bool // newline at the end of slot i (symbolic)
	c08Semi    []bool // token i triggers automatic semicolon insertion (symbolic)
	c08Cur     int
	c08Pending bool // an automatic semicolon is due (symbolic)
	c08File    *token.File
	c08Size    int
)

// c08InsertSemi is go/scanner's insertSemi rule as one boolean term.
func c08InsertSemi(t token.Token) bool {
	r := false
	for _, k := range []token.Token{token.IDENT, token.INT, token.FLOAT, token.IMAG, token.CHAR, token.STRING,
		token.BREAK, token.CONTINUE, token.FALLTHROUGH, token.RETURN,
		token.INC, token.DEC, token.RPAREN, token.RBRACK, token.RBRACE} {
		r = nd.Or(r, t == k)
	}
	return r
}

// StubC08Scan replaces (*go/scanner.Scanner).Scan.
func StubC08Scan(_ *scanner.Scanner) (token.Pos, token.Token, string) {
	if c08Pending {
		c08Pending = false
		// position of the newline (last byte of the previous slot) or EOF
		return c08File.Pos(c08Cur*c08Slot - 1), token.SEMICOLON, "\n"
	}
	if c08Cur >= len(c08Stream) {
		return c08File.Pos(c08Size), token.EOF, ""
	}
	i := c08Cur
	c08Cur++
	last := i == len(c08Stream)-1
	c08Pending = nd.And(nd.Or(last, c08NL[i]), c08Semi[i])
	return c08File.Pos(i * c08Slot), c08Stream[i], ""
}

// StubC08Line replaces (*go/token.File).Line: 1 + number of newlines in the
// slots before pos (the semicolon token sits on the newline byte itself).
func StubC08Line(f *token.File, p token.Pos) int {
	off := int(p) - f.Base()
	line := 1
	for i := 0; i < len(c08NL) && (i+1)*c08Slot <= off; i++ {
		line = nd.Ite(c08NL[i], line+1, line)
	}
	return line
}

func c08Spell(t token.Token) string {
	switch t {
	case token.IDENT:
		return "a"
	case token.INT:
		return "1"
	case token.FLOAT:
		return "1.5"
	case token.IMAG:
		return "1i"
	case token.CHAR:
		return "'c'"
	case token.STRING:
		return `"s"`
	}
	return t.String()
}

// c08Inputs reads the symbolic token stream (same calls natively).
func c08Inputs() {
	maxTok := nd.Param("NTOK", 4)
	n := nd.Choose("ntok", maxTok+1)
	c08Stream, c08NL, c08Semi, c08Cur, c08Pending = nil, nil, nil, 0, false
	c08Size = n * c08Slot
	for i := 0; i < n; i++ {
		ti := nd.Int("tok")
		t := token.Token(ti)
		// every real token kind: literals, operators, keywords, '~'
		nd.Assume(nd.Or(nd.Or(nd.And(ti >= int(token.IDENT), ti <= int(token.STRING)), nd.And(ti >= int(token.ADD), ti <= int(token.COLON))),
			nd.Or(nd.And(ti >= int(token.BREAK), ti <= int(token.VAR)), ti == int(token.TILDE))))
		nl := false
		if i < n-1 {
			nl = nd.Bool("nl")
		}
		c08Stream = append(c08Stream, t)
		c08NL = append(c08NL, nl)
		c08Semi = append(c08Semi, c08InsertSemi(t))
	}
}

// VerifC08Finder: finder.find terminates on every token stream and rewrite
// accepts what it returns.
func VerifC08Finder() {
	c08Inputs()
	c08File = token.NewFileSet().AddFile("src.go", -1, c08Size)
	f := finder{file: c08File, scanner: new(scanner.Scanner)}
	f.next()
	augs := f.find()
	src := make([]byte, c08Size)
	out, _ := rewrite(src, augs)
	nd.Assert(len(out) >= len(src), "rewrite lost bytes")
	nd.Reach("done")
}

// ReplayC08Finder realises the token stream as text and runs the real
// find + rewrite (real go/scanner) on it.
func ReplayC08Finder() {
	c08Inputs()
	src := make([]byte, 0, c08Size)
	for i, t := range c08Stream {
		s := c08Spell(t)
		for len(s) < c08Slot {
			s += " "
		}
		b := []byte(s)
		if c08NL[i] {
			b[c08Slot-1] = '\n'
		}
		_ = c08Semi
		src = append(src, b...)
	}
	augs, err := find(src)
	if err != nil {
		return
	}
	out, _ := rewrite(src, augs)
	nd.Assert(len(out) >= len(src), "rewrite lost bytes")
}

var c08FuncSkeletons = []string{
	"func (r *T) f(a int, b ...string) (x, y int) { g(...) }",
	"package p\nimport (\n\t\"a\"\n)\nfunc f(...) { x.y(..., z) }",
	"import . \"a\"\nvar x = func(...) (...) { ... }",
	"{ for ... { f(a...) }\n...\n}",
}

// VerifC08FinderText runs the real find (real go/scanner) and rewrite on a
// concrete pattern truncated at every length, with HOLES bytes at
// solver-chosen offsets replaced by arbitrary printable ASCII bytes.
func VerifC08FinderText() {
	sk := nd.Choose("skeleton", len(c08FuncSkeletons))
	src := []byte(c08FuncSkeletons[sk])
	cut := nd.Choose("cut", len(src)+1)
	src = src[:cut]
	k := nd.Param("HOLES", 1)
	prev := -1
	for h := 0; h < k && len(src) > 0; h++ {
		at := nd.Choose("at", len(src))
		nd.Assume(at > prev)
		prev = at
		b := nd.Byte("hole")
		nd.Assume(b == '\n' || (b >= 0x20 && b < 0x7f))
		src[at] = b
	}
	augs, err := find(src)
	if err == nil {
		out, _ := rewrite(src, augs)
		nd.Assert(len(out) >= len(src), "rewrite lost bytes")
	}
	nd.Reach("done")
}
