package main

// Finding 1 (C06, "no match means no effect").
//
// Goes in the repository root (package main).
//
// A change whose only "matches" in a file are in positions where the
// replacement cannot be placed (FileReplacer.Replace silently skips them:
// "the match was too eager") changes nothing in the code, yet the file is
// reported as matched: it is reformatted and rewritten, its imports are
// edited, a diff and the patch description are printed, and the library
// returns different bytes.

import (
	"bytes"
	"os"
	"path/filepath"
	"testing"

	"github.com/uber-go/gopatch/patch"
)

type f1case struct {
	name  string
	patch string
	src   string
}

var f1cases = []f1case{
	{
		// The function moved to another package. This file only
		// declares a function of that name: nothing can be rewritten,
		// but an unused import is added and the file is reformatted.
		name: "selector_in_name_only_position",
		patch: "# NewFoo moved\n" +
			"@@\n@@\n" +
			"+import \"example.com/foo\"\n" +
			"-NewFoo\n" +
			"+foo.New\n",
		src: "package a\n\nimport \"os\"\n\nfunc NewFoo()   {   _ = os.Args }\n",
	},
	{
		// "defer wrap(g)" cannot become "defer g".
		name: "non_call_in_defer_and_go",
		patch: "# Drop the wrapper\n" +
			"@@\nvar x expression\n@@\n" +
			"-wrap(x)\n" +
			"+x\n",
		src: "package a\n\nfunc f()   {\n\tdefer wrap(g /* keep */)\n\tgo   wrap( h )\n}\n",
	},
	{
		// The literal only occurs as an import path. CRLF file.
		name: "literal_in_import_path_crlf",
		patch: "# Use the constant\n" +
			"@@\n@@\n" +
			"-\"fmt\"\n" +
			"+fmtName\n",
		src: "package a\r\n\r\nimport \"fmt\"\r\n\r\nfunc f()   { fmt.Println( 1 ) }\r\n",
	},
	{
		// Field name, label, branch target and selector field: all
		// *ast.Ident-only positions.
		name: "selector_for_field_label_sel",
		patch: "@@\n@@\n" +
			"-foo\n" +
			"+bar.Baz\n",
		src: "//go:build linux\n\npackage a\n\ntype T struct{ foo   int }\n\n" +
			"func (t T) foo2() {\nfoo:\n\tfor { break foo }\n\t_ = t.foo\n}\n",
	},
	{
		// The code is left alone but the import is swapped under it.
		name: "import_swapped_under_unchanged_code",
		patch: "@@\n@@\n" +
			"-import \"old/pkg\"\n" +
			"+import \"new/pkg\"\n" +
			"\n" +
			"-pkg.Foo()\n" +
			"+pkg.Bar\n",
		src: "package a\n\nimport \"old/pkg\"\n\nfunc f() {\n\tdefer pkg.Foo()\n}\n",
	},
}

func f1run(t *testing.T, c f1case, extra ...string) (stdout, stderr string, after []byte) {
	t.Helper()
	dir := t.TempDir()
	patchPath := filepath.Join(dir, "p.patch")
	if err := os.WriteFile(patchPath, []byte(c.patch), 0o644); err != nil {
		t.Fatal(err)
	}
	if err := os.Mkdir(filepath.Join(dir, "src"), 0o755); err != nil {
		t.Fatal(err)
	}
	goPath := filepath.Join(dir, "src", "a.go")
	if err := os.WriteFile(goPath, []byte(c.src), 0o644); err != nil {
		t.Fatal(err)
	}

	var out, errb bytes.Buffer
	cmd := mainCmd{
		Stdin:  bytes.NewReader(nil),
		Stdout: &out,
		Stderr: &errb,
		Getwd:  func() (string, error) { return filepath.Join(dir, "src"), nil },
	}
	args := append([]string{"-p", patchPath}, extra...)
	args = append(args, "a.go")
	if err := cmd.Run(args); err != nil {
		// A fix may choose to reject such a patch/file; what must not
		// happen is an effect on the file or on stdout.
		t.Logf("run returned error: %v", err)
	}
	after, err := os.ReadFile(goPath)
	if err != nil {
		t.Fatal(err)
	}
	return out.String(), errb.String(), after
}

func TestFinding1_NoChangePlacedButFileRewritten(t *testing.T) {
	for _, c := range f1cases {
		c := c
		t.Run(c.name, func(t *testing.T) {
			t.Run("write", func(t *testing.T) {
				_, _, after := f1run(t, c)
				if string(after) != c.src {
					t.Errorf("no replacement was placed in the file, but it was rewritten:\n--- before\n%s--- after\n%s", c.src, after)
				}
			})
			t.Run("diff", func(t *testing.T) {
				stdout, stderr, _ := f1run(t, c, "-d")
				if stdout != "" {
					t.Errorf("no replacement was placed in the file, but a diff was printed:\n%s", stdout)
				}
				if stderr != "" {
					t.Errorf("no replacement was placed in the file, but a description was printed: %q", stderr)
				}
			})
			t.Run("print-only", func(t *testing.T) {
				stdout, _, _ := f1run(t, c, "--print-only")
				if stdout != c.src {
					t.Errorf("--print-only did not echo the original bytes:\n%q\nwant\n%q", stdout, c.src)
				}
			})
			t.Run("api", func(t *testing.T) {
				pf, err := patch.Parse("p.patch", []byte(c.patch))
				if err != nil {
					t.Fatal(err)
				}
				got, err := pf.Apply("a.go", []byte(c.src))
				if err != nil {
					t.Logf("Apply returned error: %v", err)
					return
				}
				if string(got) != c.src {
					t.Errorf("Apply did not return the input unchanged:\n%q\nwant\n%q", got, c.src)
				}
			})
		})
	}
}
