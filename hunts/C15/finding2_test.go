package main

// C15 finding 2: "." / "./..." processes nothing, silently and with exit
// status 0, when the working directory path reported by os.Getwd ($PWD) has a
// symlink as its last component.  The argument "." is a directory, not a
// symlink; gopatch turns it into filepath.Join(cwd, ".") == cwd and then
// Lstat()s that, sees a symlink, and walks nothing.
//
// Goes in the repository root (package main). Uses helpers of finding1_test.go.

import (
	"os"
	"path/filepath"
	"testing"
)

func TestC15Finding2_DotInSymlinkedWorkingDirectory(t *testing.T) {
	root, err := filepath.EvalSymlinks(t.TempDir())
	if err != nil {
		t.Fatal(err)
	}
	file := filepath.Join(root, "real", "a.go")
	c15Write(t, file, c15Src)
	c15Write(t, filepath.Join(root, "real", "sub", "b.go"), c15Src)
	link := filepath.Join(root, "link")
	if err := os.Symlink("real", link); err != nil {
		t.Skip("symlinks unavailable:", err)
	}

	for _, arg := range []string{".", "./...", "..."} {
		c15Write(t, file, c15Src)
		out, err := c15Run(t, link /* what os.Getwd returns after `cd link` */, arg)
		if err != nil {
			t.Fatal(err)
		}
		got, _ := os.ReadFile(file)
		if want := "package p\n\nvar _ = mark(0 + 1)\n"; string(got) != want {
			t.Errorf("gopatch %s: a.go beneath the named directory was not processed; log %q, file %q", arg, out, got)
		}
	}
}
