package engine

import (
	"fmt"
	"reflect"

	"github.com/uber-go/gopatch/internal/data"
	"github.com/uber-go/gopatch/internal/zzverif/nd"
)

// Whole-file cases: several sites in different syntactic positions and
// nesting depths. plus is the whole expected file when every site matches.
var c01FileCases = []faCase{
	{name: "expr-in-hosts",
		patch: "@@\nvar x expression\n@@\n-foo(x)\n+bar(x, x)\n",
		minus: "package p\n\nvar g = ⟦foo(«x:1»)⟧\n\nfunc f(a []int) int {\n\tif ⟦foo(«x:a[0]»)⟧ > 0 {\n\t\treturn ⟦foo(«x:n.m»)⟧\n\t}\n\tgo func() { h(⟦foo(«x:k»)⟧) }()\n\treturn 0\n}\n",
		plus:  "package p\n\nvar g = ⟦bar(«x», «x»)⟧\n\nfunc f(a []int) int {\n\tif ⟦bar(«x», «x»)⟧ > 0 {\n\t\treturn ⟦bar(«x», «x»)⟧\n\t}\n\tgo func() { h(⟦bar(«x», «x»)⟧) }()\n\treturn 0\n}\n"},
	{name: "stmt-nested-blocks",
		patch: "@@\nvar x expression\n@@\n-v := foo(x)\n+v := bar(x, x)\n",
		minus: "package p\n\nfunc f() {\n\t⟦v := foo(«x:1»)⟧\n\tif v > 0 {\n\t\t⟦v := foo(«x:2»)⟧\n\t\tuse(v)\n\t}\n\tfor {\n\t\tfunc() {\n\t\t\t⟦v := foo(«x:g(i)»)⟧\n\t\t\tuse(v)\n\t\t}()\n\t}\n\tuse(v)\n}\n",
		plus:  "package p\n\nfunc f() {\n\t⟦v := bar(«x», «x»)⟧\n\tif v > 0 {\n\t\t⟦v := bar(«x», «x»)⟧\n\t\tuse(v)\n\t}\n\tfor {\n\t\tfunc() {\n\t\t\t⟦v := bar(«x», «x»)⟧\n\t\t\tuse(v)\n\t\t}()\n\t}\n\tuse(v)\n}\n"},
	{name: "stmt-overlapping-prefix",
		patch: "@@\nvar x, y identifier\n@@\n-x.Lock()\n-y.Lock()\n-transfer(x, y)\n+transferLocked(x, y)\n",
		minus: "package p\n\nfunc f() {\n\ta.Lock()\n\t⟦«x:b».Lock()\n\t«y:c».Lock()\n\ttransfer(«x:b», «y:c»)⟧\n\tdone()\n}\n\nfunc g() {\n\tfor {\n\t\tp.Lock()\n\t\tq.Lock()\n\t\t⟦«x:r».Lock()\n\t\t«y:s».Lock()\n\t\ttransfer(«x:r», «y:s»)⟧\n\t}\n}\n",
		plus:  "package p\n\nfunc f() {\n\ta.Lock()\n\t⟦transferLocked(«x», «y»)⟧\n\tdone()\n}\n\nfunc g() {\n\tfor {\n\t\tp.Lock()\n\t\tq.Lock()\n\t\t⟦transferLocked(«x», «y»)⟧\n\t}\n}\n"},
	{name: "stmt-in-toplevel-funclit",
		patch: "@@\nvar x identifier\n@@\n-x.Lock()\n-defer x.Unlock()\n+guard(x)\n",
		minus: "package p\n\nvar handler = func() {\n\t⟦«x:mu».Lock()\n\tdefer «x:mu».Unlock()⟧\n}\n\nvar table = map[string]func(){\n\t\"a\": func() {\n\t\tpre()\n\t\t⟦«x:rw».Lock()\n\t\tdefer «x:rw».Unlock()⟧\n\t},\n}\n\nfunc f() {\n\t⟦«x:zz».Lock()\n\tdefer «x:zz».Unlock()⟧\n}\n",
		plus:  "package p\n\nvar handler = func() {\n\t⟦guard(«x»)⟧\n}\n\nvar table = map[string]func(){\n\t\"a\": func() {\n\t\tpre()\n\t\t⟦guard(«x»)⟧\n\t},\n}\n\nfunc f() {\n\t⟦guard(«x»)⟧\n}\n"},
	{name: "paren-fillers",
		patch: "@@\nvar x expression\n@@\n-x.Len()\n+x.Size()\n",
		minus: "package p\n\nfunc f() int {\n\tif ⟦«x:(T{})».Len()⟧ == 0 {\n\t\treturn ⟦«x:(c)».Len()⟧\n\t}\n\treturn ⟦«x:(a + b)».Len()⟧ + ⟦«x:((d))».Len()⟧\n}\n",
		plus:  "package p\n\nfunc f() int {\n\tif ⟦«x».Size()⟧ == 0 {\n\t\treturn ⟦«x».Size()⟧\n\t}\n\treturn ⟦«x».Size()⟧ + ⟦«x».Size()⟧\n}\n"},
	{name: "many-elisions",
		patch: "@@\n@@\n f(\n   g01(...),\n       g02(...),\n  g03(...),\n     g04(...),\n   g05(...),\n         g06(...),\n  g07(...),\n    g08(...),\n   g09(...),\n      g10(...),\n  g11(...),\n     g12(...),\n   g13(...),\n        g14(...),\n-  old,\n+  renewed,\n )\n",
		minus: "package p\n\nvar v = ⟦f(g01(«d1:1»), g02(«d2:a, b»), g03(), g04(«d3:c»), g05(«d4:2, 3»), g06(«d5:e»), g07(«d6:4»), g08(), g09(«d7:h, 5»), g10(«d8:i»), g11(«d9:6»), g12(«da:j»), g13(«db:7, k»), g14(«dc:8»), old)⟧\n",
		plus:  "package p\n\nvar v = ⟦f(g01(«d1»), g02(«d2»), g03(), g04(«d3»), g05(«d4»), g06(«d5»), g07(«d6»), g08(), g09(«d7»), g10(«d8»), g11(«d9»), g12(«da»), g13(«db»), g14(«dc»), renewed)⟧\n"},
	{name: "stmt-bare-nested-block",
		patch: "@@\nvar x identifier\n@@\n-x.Lock()\n-defer x.Unlock()\n+guard(x)\n",
		minus: "package p\n\nfunc f(n int) int {\n\t⟦«x:mu».Lock()\n\tdefer «x:mu».Unlock()⟧\n\t{\n\t\t⟦«x:rw».Lock()\n\t\tdefer «x:rw».Unlock()⟧\n\t}\n\tn = a(n)\n\tn = b(n)\n\treturn n\n}\n\nfunc g() {\n\tpre()\n\t{\n\t\t⟦«x:zz».Lock()\n\t\tdefer «x:zz».Unlock()⟧\n\t}\n\t⟦«x:yy».Lock()\n\tdefer «x:yy».Unlock()⟧\n\tpost()\n}\n",
		plus:  "package p\n\nfunc f(n int) int {\n\t⟦guard(«x»)⟧\n\t{\n\t\t⟦guard(«x»)⟧\n\t}\n\tn = a(n)\n\tn = b(n)\n\treturn n\n}\n\nfunc g() {\n\tpre()\n\t{\n\t\t⟦guard(«x»)⟧\n\t}\n\t⟦guard(«x»)⟧\n\tpost()\n}\n"},
	{name: "stmt-minus-first-then-elision",
		patch: "@@\nvar m identifier\n@@\n-m.Lock()\n ...\n m.Unlock()\n",
		minus: "package p\n\nfunc f() {\n\tbefore1()\n\tbefore2()\n\t⟦«m:mu».Lock()\n\t«d1:work(1)»\n\t«m:mu».Unlock()⟧\n\tafter()\n}\n\nfunc g(k int) {\n\tswitch k {\n\tcase 1:\n\t\tpre()\n\t\t⟦«m:rw».Lock()\n\t\t«d1:a(); b()»\n\t\t«m:rw».Unlock()⟧\n\t}\n}\n",
		plus:  "package p\n\nfunc f() {\n\tbefore1()\n\tbefore2()\n\t⟦«d1»\n\t«m».Unlock()⟧\n\tafter()\n}\n\nfunc g(k int) {\n\tswitch k {\n\tcase 1:\n\t\tpre()\n\t\t⟦«d1»\n\t\t«m».Unlock()⟧\n\t}\n}\n"},
	{name: "for-dots-headers-for",
		patch: "@@\nvar x expression\n@@\n for ... {\n   ...\n-  log(x)\n+  trace(x)\n   ...\n }\n",
		minus: "package p\n\nfunc f0(xs []int, ch chan int, n, i, v int) {\n\t⟦for {\n\t\t«d2:pre()»\n\t\tlog(«x:1»)\n\t}⟧\n}\n\nfunc f1(xs []int, ch chan int, n, i, v int) {\n\t⟦for «d1:i < n» {\n\t\t«d2:pre()»\n\t\tlog(«x:1»)\n\t}⟧\n}\n\nfunc f2(xs []int, ch chan int, n, i, v int) {\n\t⟦for «d1:i := 0; i < n; i++» {\n\t\t«d2:pre()»\n\t\tlog(«x:1»)\n\t}⟧\n}\n\nfunc f3(xs []int, ch chan int, n, i, v int) {\n\t⟦for «d1:; ; i++» {\n\t\t«d2:pre()»\n\t\tlog(«x:1»)\n\t}⟧\n}\n",
		plus:  "package p\n\nfunc f0(xs []int, ch chan int, n, i, v int) {\n\t⟦for {\n\t\t«d2»\n\t\ttrace(«x»)\n\t}⟧\n}\n\nfunc f1(xs []int, ch chan int, n, i, v int) {\n\t⟦for «d1» {\n\t\t«d2»\n\t\ttrace(«x»)\n\t}⟧\n}\n\nfunc f2(xs []int, ch chan int, n, i, v int) {\n\t⟦for «d1» {\n\t\t«d2»\n\t\ttrace(«x»)\n\t}⟧\n}\n\nfunc f3(xs []int, ch chan int, n, i, v int) {\n\t⟦for «d1» {\n\t\t«d2»\n\t\ttrace(«x»)\n\t}⟧\n}\n"},
	{name: "for-dots-headers-range",
		patch: "@@\nvar x expression\n@@\n for ... {\n   ...\n-  log(x)\n+  trace(x)\n   ...\n }\n",
		minus: "package p\n\nfunc f0(xs []int, ch chan int, n, i, v int) {\n\t⟦for «d1:range ch» {\n\t\t«d2:pre()»\n\t\tlog(«x:1»)\n\t}⟧\n}\n\nfunc f1(xs []int, ch chan int, n, i, v int) {\n\t⟦for «d1:i := range xs» {\n\t\t«d2:pre()»\n\t\tlog(«x:1»)\n\t}⟧\n}\n\nfunc f2(xs []int, ch chan int, n, i, v int) {\n\t⟦for «d1:i, v := range xs» {\n\t\t«d2:pre()»\n\t\tlog(«x:1»)\n\t}⟧\n}\n\nfunc f3(xs []int, ch chan int, n, i, v int) {\n\t⟦for «d1:i, v = range xs» {\n\t\t«d2:pre()»\n\t\tlog(«x:1»)\n\t}⟧\n}\n",
		plus:  "package p\n\nfunc f0(xs []int, ch chan int, n, i, v int) {\n\t⟦for «d1» {\n\t\t«d2»\n\t\ttrace(«x»)\n\t}⟧\n}\n\nfunc f1(xs []int, ch chan int, n, i, v int) {\n\t⟦for «d1» {\n\t\t«d2»\n\t\ttrace(«x»)\n\t}⟧\n}\n\nfunc f2(xs []int, ch chan int, n, i, v int) {\n\t⟦for «d1» {\n\t\t«d2»\n\t\ttrace(«x»)\n\t}⟧\n}\n\nfunc f3(xs []int, ch chan int, n, i, v int) {\n\t⟦for «d1» {\n\t\t«d2»\n\t\ttrace(«x»)\n\t}⟧\n}\n"},
	{name: "branch-label-absent",
		patch: "@@\nvar l identifier\n@@\n-break l\n+continue l\n",
		minus: "package p\n\nfunc f(c bool) {\nout:\n\tfor {\n\t\tfor {\n\t\t\t⟦break «l:out»⟧\n\t\t}\n\t\tif c {\n\t\t\tbreak\n\t\t}\n\t\tswitch {\n\t\tcase c:\n\t\t\tcontinue\n\t\t}\n\t}\n}\n",
		plus:  "package p\n\nfunc f(c bool) {\nout:\n\tfor {\n\t\tfor {\n\t\t\t⟦continue «l»⟧\n\t\t}\n\t\tif c {\n\t\t\tbreak\n\t\t}\n\t\tswitch {\n\t\tcase c:\n\t\t\tcontinue\n\t\t}\n\t}\n}\n"},
	{name: "star-operand-needs-parens",
		patch: "@@\nvar x expression\n@@\n-deref(x)\n+*x\n",
		minus: "package p\n\nfunc f(p *int, q []*int) int {\n\treturn ⟦deref(«x:p»)⟧ + ⟦deref(«x:q[0]»)⟧\n}\n\nvar g = ⟦deref(«x:a + b»)⟧\n",
		plus:  "package p\n\nfunc f(p *int, q []*int) int {\n\treturn ⟦*«x»⟧ + ⟦*«x»⟧\n}\n\nvar g = ⟦*(«x»)⟧\n"},
	{name: "star-operand-replaced-by-binary",
		patch: "@@\nvar p, i expression\n@@\n-at(p, i)\n+p + i\n",
		minus: "package p\n\nvar v = *⟦at(«p:q», «i:1»)⟧\n\nvar w = f(⟦at(«p:r», «i:2»)⟧)\n",
		plus:  "package p\n\nvar v = *(⟦«p» + «i»⟧)\n\nvar w = f(⟦«p» + «i»⟧)\n"},
	{name: "stmt-inside-rewritten-compound", extra: 2,
		patch: "@@\nvar x expression\n@@\n-if x == true {\n+if x {\n   ...\n }\n",
		minus: "package p\n\nfunc f(a, b bool) {\n\tif a == true {\n\t\t⟦if «x:b» == true {\n\t\t\t«d1:foo()»\n\t\t}⟧\n\t}\n}\n\nfunc g(a, b bool) {\n\tfor a == true {\n\t\t⟦if «x:b» == true {\n\t\t\t«d1:foo()»\n\t\t}⟧\n\t}\n\tif b == true {\n\t\tbar()\n\t}\n}\n",
		plus:  "package p\n\nfunc f(a, b bool) {\n\tif a {\n\t\t⟦if «x» {\n\t\t\t«d1»\n\t\t}⟧\n\t}\n}\n\nfunc g(a, b bool) {\n\tfor a == true {\n\t\t⟦if «x» {\n\t\t\t«d1»\n\t\t}⟧\n\t}\n\tif b {\n\t\tbar()\n\t}\n}\n"},
	{name: "decl-sibling-lists-share-metavar", loose: true,
		patch: "@@\nvar x identifier\n@@\n func f(..., x T, ...) {\n   ...\n-  use(x)\n+  use2(x)\n   ...\n }\n",
		minus: "package p\n\n⟦func f(«d1:a S», «x:b» T) {\n\t«d2:pre()»\n\tuse(«x:b»)\n}⟧\n",
		plus:  "package p\n\n⟦func f(«d1», «x» T) {\n\t«d2»\n\tuse2(«x»)\n}⟧\n"},
	{name: "stmt-to-var-declaration",
		patch: "@@\nvar x expression\n@@\n-y := foo(x)\n+var y = bar(x)\n",
		minus: "package p\n\nfunc f() {\n\tpre()\n\t⟦y := foo(«x:1»)⟧\n\tuse(y)\n}\n\nfunc g() {\n\tif c {\n\t\t⟦y := foo(«x:a.b»)⟧\n\t\tuse(y)\n\t}\n}\n",
		plus:  "package p\n\nfunc f() {\n\tpre()\n\t⟦var y = bar(«x»)⟧\n\tuse(y)\n}\n\nfunc g() {\n\tif c {\n\t\t⟦var y = bar(«x»)⟧\n\t\tuse(y)\n\t}\n}\n"},
	{name: "expr-stmt-to-var-declaration",
		patch: "@@\nvar x expression\n@@\n-foo(x)\n+var _ = bar(x)\n",
		minus: "package p\n\nfunc f() {\n\t⟦foo(«x:1»)⟧\n}\n",
		plus:  "package p\n\nfunc f() {\n\t⟦var _ = bar(«x»)⟧\n}\n"},
	{name: "stmt-in-case-and-select",
		patch: "@@\nvar x identifier\n@@\n-x.Lock()\n+lock(x)\n",
		minus: "package p\n\nfunc f(c chan int) {\n\tswitch {\n\tcase true:\n\t\t⟦«x:mu».Lock()⟧\n\t}\n\tselect {\n\tcase <-c:\n\t\tpre()\n\t\t⟦«x:rw».Lock()⟧\n\t}\n}\n",
		plus:  "package p\n\nfunc f(c chan int) {\n\tswitch {\n\tcase true:\n\t\t⟦lock(«x»)⟧\n\t}\n\tselect {\n\tcase <-c:\n\t\tpre()\n\t\t⟦lock(«x»)⟧\n\t}\n}\n"},
	{name: "decl-top-and-nested",
		patch: "@@\nvar n identifier\nvar v expression\n@@\n-var n int = v\n+var n = v\n",
		minus: "package p\n\n⟦var «n:a» int = «v:1»⟧\n\nfunc f() {\n\t⟦var «n:b» int = «v:g()»⟧\n\t_ = b\n}\n",
		plus:  "package p\n\n⟦var «n» = «v»⟧\n\nfunc f() {\n\t⟦var «n» = «v»⟧\n\t_ = b\n}\n"},
	{name: "funcdecl-two",
		patch: "@@\nvar f identifier\n@@\n-func f() error {\n-\treturn nil\n-}\n+func f() {}\n",
		minus: "package p\n\n⟦func «f:a»() error {\n\treturn nil\n}⟧\n\nfunc keep() {}\n\n⟦func «f:b»() error {\n\treturn nil\n}⟧\n",
		plus:  "package p\n\n⟦func «f»() {}⟧\n\nfunc keep() {}\n\n⟦func «f»() {}⟧\n"},
	{name: "swap-and-drop",
		patch: "@@\nvar a, b, c expression\n@@\n-pick(a, b, c)\n+pick2(c, a)\n",
		minus: "package p\n\nvar v = []int{⟦pick(«a:1», «b:x.y», «c:z[0]»)⟧, ⟦pick(«a:p», «b:2», «c:q()»)⟧}\n",
		plus:  "package p\n\nvar v = []int{⟦pick2(«c», «a»)⟧, ⟦pick2(«c», «a»)⟧}\n"},
	{name: "inadmissible-first",
		patch: "@@\nvar x expression\n@@\n-wrap(x)\n+x\n",
		minus: "package p\n\nfunc f() {\n\tdefer ⟦wrap(«x:mu.Unlock»)⟧\n\tdefer ⟦wrap(«x:cleanup(1)»)⟧\n\tgo ⟦wrap(«x:other(2)»)⟧\n}\n",
		plus:  "package p\n\nfunc f() {\n\tdefer ⟦wrap(«x:mu.Unlock»)⟧\n\tdefer ⟦«x»⟧\n\tgo ⟦«x»⟧\n}\n"},
	{name: "admissible-only",
		patch: "@@\nvar x expression\n@@\n-wrap(x)\n+x\n",
		minus: "package p\n\nfunc f() {\n\tdefer ⟦wrap(«x:cleanup(1)»)⟧\n\tuse(⟦wrap(«x:a.b»)⟧)\n}\n",
		plus:  "package p\n\nfunc f() {\n\tdefer ⟦«x»⟧\n\tuse(⟦«x»⟧)\n}\n"},
}

func c01CountMatches(d data.Data) int {
	var fd fileMatchData
	if !data.Lookup(d, fileMatchKey, &fd) {
		return 0
	}
	return len(fd.Matches)
}

// VerifC01File: the real FileMatcher finds every instance, wherever it
// occurs, and nothing else; Replace then yields exactly the '+' template
// instantiated per site with everything else untouched.
func VerifC01File() {
	c := c01FileCases[nd.Choose("case", len(c01FileCases))]
	r := faPrepare(c)
	stmtPattern := r.locs[0].stmts
	// LENVAR (thorough): one solver-chosen site per run gets a leaf that is one byte longer
	lenSite := 0
	if nd.Param("LENVAR", 0) == 1 && len(r.sites) > 1 {
		lenSite = nd.Choose("lensite", len(r.sites))
	}
	for k := range r.sites {
		faLenVarOff = k != lenSite
		r.symboliseSite(k)
	}
	faLenVarOff = false
	ch := r.prog.Changes[0]
	d, ok := ch.Match(r.file)
	anyWant, allWant, n := false, true, 0
	for k := range r.sites {
		anyWant = nd.Or(anyWant, r.want[k])
		allWant = nd.And(allWant, r.want[k])
		n = n + nd.Ite(r.want[k], 1, 0)
	}
	if c.extra > 0 {
		anyWant = true
	}
	if c.loose {
		nd.Assert(nd.Implies(allWant, ok), c.name+": the file matches iff it contains an instance")
		if !nd.And(allWant, ok) {
			nd.Reach("matched")
			return
		}
	}
	nd.Assert(nd.Iff(ok, anyWant), c.name+": the file matches iff it contains an instance")
	if ok {
		got := c01CountMatches(d)
		if stmtPattern {
			// one match per block/case/comm clause that contains an instance (each site sits in its own block here)
			nd.Assert(got == n+c.extra, c.name+": a block containing an instance was not found (or a block without one was)")
		} else {
			nd.Assert(got == n+c.extra, c.name+": number of rewritten sites differs from the number of instances")
		}
	}
	nd.Reach("matched")
	if !ok {
		return
	}
	out, err := ch.Replace(d, NewChangelog())
	nd.Assert(err == nil, c.name+": Replace failed on an instance")
	if err != nil {
		return
	}
	// when every site is an instance the result is the '+' template, instantiated per site
	every := true
	for k := range r.sites {
		if !r.want[k] {
			every = false
		}
	}
	if every {
		exp := r.expectedFile()
		nd.Assert(faEqual(reflect.ValueOf(out.Decls), reflect.ValueOf(exp.Decls)), c.name+": rewritten file is not the '+' pattern instantiated per site with everything else preserved")
		nd.Assert(nd.StrEq(out.Name.Name, exp.Name.Name), c.name+": package clause changed")
		nd.Reach("replaced")
	}
	_ = fmt.Sprint
}
