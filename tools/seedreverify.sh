#!/bin/bash
# re-confirm every kept seed against /repo's current HEAD (after fix commits): patch applies, builds,
# suite passes with it, demo passes without and fails with it. Scratch worktrees under /tmp, removed.
cd /verif
for d in seeded/*/; do n=$(basename $d); [ -f $d/patch.diff ] || continue
  r=$(tools/seedverify.sh ${n%-*} ${n#*-} /verif/$d 2>&1 | grep -E "^CONFIRMED|^NOT CONFIRMED|PATCH DOES NOT APPLY|DOES NOT BUILD|baseline-demo" | tr '\n' ' ')
  echo "$n $r"
done
