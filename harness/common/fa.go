package engine

// Shared F-A harness: the real parse.Parse -> Compile -> Match -> Replace on
// catalogue patterns, with a target whose SHAPE is the concrete instance the
// catalogue gives and whose LEAVES (identifier bytes, literal bytes, token
// kinds, optional-position validity, channel direction) are solver variables.
//
// A catalogue entry is a patch plus an instance template of a whole Go file:
//
//	⟦ ... ⟧        delimits a site (an instance of the '-' pattern)
//	«x:code»       code standing for metavariable x (or for the i-th elision, named d1, d2, ...)
//	«x»            (plus template only) the code x stood for at this site
//
// The oracle needs no second matcher: a site matches iff every leaf outside
// the holes equals the instance's leaf and all occurrences of one
// metavariable are leaf-wise equal.

import (
	"fmt"
	"go/ast"
	"go/parser"
	"go/token"
	"reflect"
	"strings"

	"github.com/uber-go/gopatch/internal/data"
	"github.com/uber-go/gopatch/internal/parse"
	"github.com/uber-go/gopatch/internal/zzverif/nd"
)

type faCase struct {
	name  string
	patch string
	minus string // instance template (whole file)
	plus  string // expected result template (whole file); "" = not checked

	idents      []string // metavariables declared 'identifier'
	nonInstance bool     // the template is deliberately NOT an instance (kind or shape mismatch): pick the innermost node spanning the site
	loose       bool     // the fillers of an elision can complete another decomposition of the pattern: only "an instance by the template's decomposition is matched and rewritten" is asserted
	extra       int      // instances written out in the template outside the ⟦sites⟧ (each the first of its own block for statement patterns)
}

type faHole struct {
	name   string
	lo, hi int // byte range in the stripped source
	site   int
}

type faSite struct {
	lo, hi int
}

// faStrip removes the markers and returns the plain source with hole and site ranges.
// fillers (by site, by name) are recorded on the first pass (minus) and used to
// expand «x» on the plus side.
func faStrip(tmpl string, fillers []map[string]string) (src string, holes []faHole, sites []faSite, outFillers []map[string]string) {
	var b strings.Builder
	site := -1
	siteLo := 0
	for i := 0; i < len(tmpl); {
		switch {
		case strings.HasPrefix(tmpl[i:], "⟦"):
			site = len(sites)
			siteLo = b.Len()
			outFillers = append(outFillers, map[string]string{})
			i += len("⟦")
		case strings.HasPrefix(tmpl[i:], "⟧"):
			sites = append(sites, faSite{siteLo, b.Len()})
			site = -1
			i += len("⟧")
		case strings.HasPrefix(tmpl[i:], "«"):
			j := strings.Index(tmpl[i:], "»")
			body := tmpl[i+len("«") : i+j]
			name, text := body, ""
			if k := strings.Index(body, ":"); k >= 0 {
				name, text = body[:k], body[k+1:]
				if site >= 0 {
					if _, dup := outFillers[site][name]; !dup {
						outFillers[site][name] = text
					}
				}
			} else if fillers != nil && site >= 0 && site < len(fillers) {
				text = fillers[site][name]
			}
			holes = append(holes, faHole{name: name, lo: b.Len(), hi: b.Len() + len(text), site: site})
			b.WriteString(text)
			i += j + len("»")
		default:
			b.WriteByte(tmpl[i])
			i++
		}
	}
	return b.String(), holes, sites, outFillers
}

// ---- leaves ----

const (
	faIdent = iota
	faLit
	faTok
	faPosValid
	faChanDir
)

type faLeaf struct {
	kind int
	addr reflect.Value // settable
	orig reflect.Value // copy of the original value
	hole int           // index into holes, -1 outside any hole
	ord  int           // ordinal of the leaf within its hole
	path string
	// symbolic replacement
	symS string
	symI int
	symB bool
	eq   bool // term: symbolic value equals the original
}

var (
	faNodeType    = reflect.TypeOf((*ast.Node)(nil)).Elem()
	faObjType     = reflect.TypeOf((*ast.Object)(nil))
	faScopeType   = reflect.TypeOf((*ast.Scope)(nil))
	faCGType      = reflect.TypeOf((*ast.CommentGroup)(nil))
	faPosType     = reflect.TypeOf(token.Pos(0))
	faTokType     = reflect.TypeOf(token.Token(0))
	faChanDirType = reflect.TypeOf(ast.ChanDir(0))
)

type faWalker struct {
	base   int
	holes  []faHole
	leaves []*faLeaf
	ords   map[int]int
	roots  map[int]reflect.Value // outermost node of each hole

	skipImports bool // leave import declarations alone (their paths are not "surrounding code" a patch may not touch: it may add to them)
}

func (w *faWalker) holeOf(n ast.Node, cur int) int {
	if cur >= 0 || n == nil {
		return cur
	}
	lo, hi := int(n.Pos())-w.base, int(n.End())-w.base
	for k, h := range w.holes {
		if lo >= h.lo && hi <= h.hi && hi > lo {
			return k
		}
	}
	return cur
}

func (w *faWalker) add(l *faLeaf) {
	if l.hole >= 0 {
		l.ord = w.ords[l.hole]
		w.ords[l.hole]++
	}
	w.leaves = append(w.leaves, l)
}

// walk collects the leaves below v. lo/hi restrict collection to nodes inside
// a byte range (used for statement runs inside a block); 0,0 = no restriction.
func (w *faWalker) walk(v reflect.Value, hole int, path string) {
	switch v.Kind() {
	case reflect.Interface:
		if !v.IsNil() {
			w.walk(v.Elem(), hole, path)
		}
	case reflect.Ptr:
		if v.IsNil() {
			return
		}
		switch v.Type() {
		case faObjType, faScopeType, faCGType:
			return
		}
		if v.Type().Implements(faNodeType) {
			was := hole
			hole = w.holeOf(v.Interface().(ast.Node), hole)
			if was < 0 && hole >= 0 && w.roots != nil {
				if _, dup := w.roots[hole]; !dup {
					w.roots[hole] = v
				}
			}
		}
		w.walk(v.Elem(), hole, path)
	case reflect.Slice:
		for i := 0; i < v.Len(); i++ {
			w.walk(v.Index(i), hole, fmt.Sprintf("%s[%d]", path, i))
		}
	case reflect.Struct:
		tn := v.Type().Name()
		if w.skipImports && tn == "GenDecl" && token.Token(v.FieldByName("Tok").Int()) == token.IMPORT {
			return
		}
		for i := 0; i < v.NumField(); i++ {
			f := v.Field(i)
			fn := v.Type().Field(i).Name
			p := path + "." + tn + "." + fn
			if tn == "File" && fn != "Name" && fn != "Decls" {
				continue // Imports/Unresolved alias nodes of Decls; scopes and comments are not code
			}
			switch {
			case f.Kind() == reflect.String:
				switch tn + "." + fn {
				case "Ident.Name":
					w.add(&faLeaf{kind: faIdent, addr: f, orig: reflect.ValueOf(f.String()), hole: hole, path: p})
				case "BasicLit.Value":
					w.add(&faLeaf{kind: faLit, addr: f, orig: reflect.ValueOf(f.String()), hole: hole, path: p})
				}
			case f.Type() == faTokType:
				if tn == "BasicLit" { // the literal's kind follows its text
					continue
				}
				th := hole
				if pf := v.FieldByName(fn + "Pos"); th < 0 && pf.IsValid() && pf.Type() == faPosType && pf.Int() != 0 {
					// a token of a node that straddles a filler (the ':=' of "for «d:i := range xs» {")
					at := int(pf.Int()) - w.base
					for k, h := range w.holes {
						if at >= h.lo && at < h.hi {
							th = k
						}
					}
				}
				w.add(&faLeaf{kind: faTok, addr: f, orig: reflect.ValueOf(int(f.Int())), hole: th, path: p})
			case f.Type() == faChanDirType:
				w.add(&faLeaf{kind: faChanDir, addr: f, orig: reflect.ValueOf(int(f.Int())), hole: hole, path: p})
			case f.Type() == faPosType:
				switch tn + "." + fn {
				case "CallExpr.Ellipsis", "TypeSpec.Assign", "GenDecl.Lparen":
					w.add(&faLeaf{kind: faPosValid, addr: f, orig: reflect.ValueOf(int(f.Int())), hole: hole, path: p})
				}
			default:
				w.walk(f, hole, p)
			}
		}
	}
}

// faLenVarOff switches the LENVAR variation off for the next faSymbolise call
// (whole-file harnesses vary one site per run, not every site at once).
var faLenVarOff bool

func faIsLetter(c byte) bool { return nd.And(c >= 'a', c <= 'z') }

// symbolise replaces every collected leaf by a fresh symbolic value of the
// same length/class and records the term "equals the original".
func faSymbolise(leaves []*faLeaf) {
	// LENVAR=1 (thorough tiers): one solver-chosen identifier or literal of
	// the site is one byte LONGER than the instance's, so "equal up to length"
	// comparisons are exercised too.
	lenLeaf := -1
	if nd.Param("LENVAR", 0) == 1 && len(leaves) > 0 && !faLenVarOff {
		lenLeaf = nd.Choose("lenleaf", len(leaves)+1) - 1
	}
	for k, l := range leaves {
		tag := fmt.Sprintf("leaf%d", k)
		extra := 0
		if k == lenLeaf {
			extra = 1
		}
		switch l.kind {
		case faIdent:
			o := l.orig.String()
			s := nd.Str(tag, len(o)+extra)
			for i := 0; i < len(s); i++ {
				if i == 0 {
					nd.Assume(nd.Or(faIsLetter(s[i]), nd.And(s[i] >= 'A', s[i] <= 'Z')))
				} else {
					nd.Assume(nd.Or(faIsLetter(s[i]), nd.And(s[i] >= '0', s[i] <= '9')))
				}
			}
			l.symS = s
			l.eq = extra == 0 && nd.StrEq(s, o)
			l.addr.SetString(s)
		case faLit:
			o := l.orig.String()
			if len(o) == 0 {
				l.eq = true
				continue
			}
			var s string
			switch o[0] {
			case '"', '`', '\'':
				if len(o) <= 2 {
					l.symS, l.eq = o, true
					continue
				}
				plain := true
				for i := 1; i < len(o)-1; i++ {
					if o[i] < 'a' || o[i] > 'z' {
						plain = false
					}
				}
				if !plain {
					// text with spaces, newlines, escapes: kept as it is
					l.symS, l.eq = o, true
					continue
				}
				in := nd.Str(tag, len(o)-2+extra)
				for i := 0; i < len(in); i++ {
					nd.Assume(nd.And(in[i] >= 'a', in[i] <= 'z'))
				}
				s = o[:1] + in + o[len(o)-1:]
			default:
				s = nd.Str(tag, len(o)+extra)
				for i := 0; i < len(s); i++ {
					nd.Assume(nd.And(s[i] >= '0', s[i] <= '9'))
				}
				if len(s) > 1 {
					nd.Assume(s[0] != '0')
				}
			}
			l.symS = s
			l.eq = extra == 0 && nd.StrEq(s, o)
			l.addr.SetString(s)
		case faTok:
			o := token.Token(l.orig.Int())
			t := nd.Int(tag)
			lo, hi := o, o
			switch {
			case o >= token.ADD && o <= token.AND_NOT, o >= token.LAND && o <= token.LOR, o >= token.EQL && o <= token.GTR, o == token.NEQ || o == token.LEQ || o == token.GEQ:
				// binary/unary operator: any operator token
				nd.Assume(nd.Or(nd.And(t >= int(token.ADD), t <= int(token.AND_NOT)), nd.Or(nd.And(t >= int(token.LAND), t <= int(token.ARROW)), nd.Or(nd.And(t >= int(token.EQL), t <= int(token.NOT)), nd.And(t >= int(token.NEQ), t <= int(token.GEQ))))))
				lo, hi = -1, -1
			case o >= token.ADD_ASSIGN && o <= token.AND_NOT_ASSIGN, o == token.ASSIGN, o == token.DEFINE:
				nd.Assume(nd.Or(nd.And(t >= int(token.ADD_ASSIGN), t <= int(token.AND_NOT_ASSIGN)), nd.Or(t == int(token.ASSIGN), t == int(token.DEFINE))))
				lo, hi = -1, -1
			case o == token.INC || o == token.DEC:
				lo, hi = token.INC, token.DEC
			case o == token.BREAK || o == token.CONTINUE || o == token.GOTO || o == token.FALLTHROUGH:
				nd.Assume(nd.Or(nd.Or(t == int(token.BREAK), t == int(token.CONTINUE)), nd.Or(t == int(token.GOTO), t == int(token.FALLTHROUGH))))
				lo, hi = -1, -1
			case o == token.VAR || o == token.CONST:
				nd.Assume(nd.Or(t == int(token.VAR), t == int(token.CONST)))
				lo, hi = -1, -1
			case o == token.ILLEGAL: // RangeStmt without key
				nd.Assume(t == int(token.ILLEGAL))
				lo, hi = -1, -1
			case o == token.DEFER || o == token.GO:
				lo, hi = o, o
			}
			if lo >= 0 {
				nd.Assume(nd.And(t >= int(lo), t <= int(hi)))
			}
			l.symI = t
			l.eq = t == int(o)
			l.addr.SetInt(int64(t))
		case faChanDir:
			o := int(l.orig.Int())
			t := nd.Int(tag)
			nd.Assume(nd.And(t >= 1, t <= 3))
			l.symI = t
			l.eq = t == o
			l.addr.SetInt(int64(t))
		case faPosValid:
			o := int(l.orig.Int())
			valid := nd.Bool(tag)
			l.symB = valid
			p := nd.Ite(valid, 1000+k, 0)
			l.symI = p
			l.eq = nd.Iff(valid, o != 0)
			l.addr.SetInt(int64(p))
		}
	}
}

// faWant is the term "the symbolised site is an instance of the pattern".
func faWant(leaves []*faLeaf, holes []faHole, roots map[int]reflect.Value, idents []string) bool {
	want := true
	for k, h := range holes {
		root, ok := roots[k]
		if !ok {
			continue
		}
		isIdent := false
		for _, id := range idents {
			if id == h.name && root.Type() != reflect.TypeOf((*ast.Ident)(nil)) {
				return false // an identifier metavariable stands for a single identifier only
			}
			isIdent = isIdent || id == h.name
		}
		if !isIdent && !(strings.HasPrefix(h.name, "d") && len(h.name) == 2) && root.CanInterface() {
			// an expression metavariable stands for an expression: some ast.Expr nodes are none
			switch n := root.Interface().(type) {
			case *ast.KeyValueExpr, *ast.Ellipsis:
				return false // "k: v" element; the "...T" of a variadic parameter, the "..." of [...]T
			case *ast.CompositeLit:
				if n.Type == nil {
					return false // an element whose type is elided: {1} in []T{{1}}
				}
			}
		}
	}
	for _, l := range leaves {
		if l.hole < 0 {
			want = nd.And(want, l.eq)
		}
	}
	// all occurrences of one metavariable stand for leaf-wise equal code
	byName := map[string][]int{}
	var names []string
	for k, h := range holes {
		if _, ok := byName[h.name+fmt.Sprint(h.site)]; !ok {
			names = append(names, h.name+fmt.Sprint(h.site))
		}
		byName[h.name+fmt.Sprint(h.site)] = append(byName[h.name+fmt.Sprint(h.site)], k)
	}
	for _, n := range names {
		occ := byName[n]
		if len(occ) < 2 || strings.HasPrefix(holes[occ[0]].name, "d") && len(holes[occ[0]].name) == 2 {
			continue // single occurrence, or an elision (d1, d2, ...)
		}
		first := faHoleLeaves(leaves, occ[0])
		for _, o := range occ[1:] {
			other := faHoleLeaves(leaves, o)
			if len(other) != len(first) {
				return false
			}
			if ra, ok := roots[occ[0]]; ok {
				if rb, ok := roots[o]; ok && !faSameShape(ra, rb) {
					return false
				}
			}
			for i := range first {
				want = nd.And(want, faLeafEq(first[i], other[i]))
			}
		}
	}
	return want
}

// faSameShape compares two subtrees structurally, ignoring every leaf value.
func faSameShape(a, b reflect.Value) bool {
	if a.Kind() == reflect.Interface || b.Kind() == reflect.Interface {
		if a.Kind() == reflect.Interface {
			if a.IsNil() {
				return (b.Kind() == reflect.Interface || b.Kind() == reflect.Ptr) && b.IsNil()
			}
			a = a.Elem()
		}
		if b.Kind() == reflect.Interface {
			if b.IsNil() {
				return a.Kind() == reflect.Ptr && a.IsNil()
			}
			b = b.Elem()
		}
	}
	if a.Type() != b.Type() {
		return false
	}
	switch a.Kind() {
	case reflect.Ptr:
		switch a.Type() {
		case faObjType, faScopeType, faCGType:
			return true
		}
		if a.IsNil() || b.IsNil() {
			return a.IsNil() == b.IsNil()
		}
		return faSameShape(a.Elem(), b.Elem())
	case reflect.Slice:
		if a.Len() != b.Len() {
			return false
		}
		for i := 0; i < a.Len(); i++ {
			if !faSameShape(a.Index(i), b.Index(i)) {
				return false
			}
		}
	case reflect.Struct:
		for i := 0; i < a.NumField(); i++ {
			if a.Field(i).Type() == faPosType {
				continue
			}
			if !faSameShape(a.Field(i), b.Field(i)) {
				return false
			}
		}
	case reflect.Bool:
		return a.Bool() == b.Bool()
	}
	return true
}

func faHoleLeaves(leaves []*faLeaf, hole int) (out []*faLeaf) {
	for _, l := range leaves {
		if l.hole == hole {
			out = append(out, l)
		}
	}
	return
}

func faLeafEq(a, b *faLeaf) bool {
	if a.kind != b.kind {
		return false
	}
	switch a.kind {
	case faIdent, faLit:
		return nd.StrEq(a.symS, b.symS)
	case faPosValid:
		return nd.Iff(a.symB, b.symB)
	}
	return a.symI == b.symI
}

// ---- locating sites ----

type faLoc struct {
	node   ast.Node      // the site node (or the enclosing statement container)
	parent reflect.Value // struct holding the slot
	field  string
	index  int
	stmts  bool // the site is a run of statements inside node
}

func faFind(f *ast.File, base int, s faSite, accept func(ast.Node) bool) *faLoc {
	var found *faLoc
	var exact, containers []ast.Node
	ast.Inspect(f, func(n ast.Node) bool {
		if n == nil {
			return false
		}
		lo, hi := int(n.Pos())-base, int(n.End())-base
		if lo == s.lo && hi == s.hi {
			exact = append(exact, n)
			return true
		}
		if lo <= s.lo && hi >= s.hi {
			switch n.(type) {
			case *ast.BlockStmt, *ast.CaseClause, *ast.CommClause:
				containers = append(containers, n)
			}
			return true
		}
		return false
	})
	// several nodes can span exactly the same text (DeclStmt/GenDecl,
	// ExprStmt/CallExpr) and a statement pattern matches the enclosing
	// block: take the first candidate the caller accepts.
	if accept == nil && len(exact) > 0 {
		found = &faLoc{node: exact[len(exact)-1]} // innermost
	}
	for _, n := range exact {
		if found == nil && accept != nil && accept(n) {
			found = &faLoc{node: n}
			break
		}
	}
	if found == nil {
		for i := len(containers) - 1; i >= 0; i-- {
			if accept == nil || accept(containers[i]) {
				found = &faLoc{node: containers[i], stmts: true}
				break
			}
		}
	}
	if found == nil {
		if accept != nil {
			panic(fmt.Sprintf("the catalogue instance at bytes [%d,%d) of the target is an instance of the '-' pattern by construction, but the real matcher matches no node there", s.lo, s.hi))
		}
		panic(fmt.Sprintf("harness: no node for site [%d,%d)", s.lo, s.hi))
	}
	// find the slot holding found.node
	var search func(v reflect.Value) bool
	target := any(found.node)
	search = func(v reflect.Value) bool {
		switch v.Kind() {
		case reflect.Interface:
			if v.IsNil() {
				return false
			}
			return search(v.Elem())
		case reflect.Ptr:
			if v.IsNil() {
				return false
			}
			switch v.Type() {
			case faObjType, faScopeType, faCGType:
				return false
			}
			return search(v.Elem())
		case reflect.Struct:
			for i := 0; i < v.NumField(); i++ {
				fv := v.Field(i)
				switch fv.Kind() {
				case reflect.Interface, reflect.Ptr:
					if !fv.IsNil() && faPointer(fv) == target {
						found.parent, found.field, found.index = v, v.Type().Field(i).Name, -1
						return true
					}
					if search(fv) {
						return true
					}
				case reflect.Slice:
					for j := 0; j < fv.Len(); j++ {
						e := fv.Index(j)
						if (e.Kind() == reflect.Interface || e.Kind() == reflect.Ptr) && !e.IsNil() && faPointer(e) == target {
							found.parent, found.field, found.index = v, v.Type().Field(i).Name, j
							return true
						}
						if search(e) {
							return true
						}
					}
				case reflect.Struct:
					if search(fv) {
						return true
					}
				}
			}
		}
		return false
	}
	search(reflect.ValueOf(f))
	return found
}

// faPointer returns the value as an interface, so that pointer identity can be compared with ==.
func faPointer(v reflect.Value) any {
	if n, ok := v.Interface().(ast.Node); ok {
		return any(n)
	}
	return nil
}

// slot returns the current content of the site's slot (after a rewrite).
func (l *faLoc) slot() reflect.Value {
	v := l.parent.FieldByName(l.field)
	if l.index >= 0 {
		v = v.Index(l.index)
	}
	return v
}

// ---- structural comparison (positions, comments and Obj ignored) ----

func faEqual(a, b reflect.Value) bool {
	if a.Kind() == reflect.Interface {
		if a.IsNil() {
			return b.Kind() == reflect.Interface && b.IsNil() || (b.Kind() == reflect.Ptr && b.IsNil())
		}
		a = a.Elem()
	}
	if b.Kind() == reflect.Interface {
		if b.IsNil() {
			return a.Kind() == reflect.Ptr && a.IsNil()
		}
		b = b.Elem()
	}
	if a.Type() != b.Type() {
		return false
	}
	switch a.Kind() {
	case reflect.Ptr:
		switch a.Type() {
		case faObjType, faScopeType, faCGType:
			return true
		}
		if a.IsNil() || b.IsNil() {
			return a.IsNil() == b.IsNil()
		}
		return faEqual(a.Elem(), b.Elem())
	case reflect.Slice:
		if a.Len() != b.Len() {
			return false
		}
		r := true
		for i := 0; i < a.Len(); i++ {
			r = nd.And(r, faEqual(a.Index(i), b.Index(i)))
		}
		return r
	case reflect.Struct:
		r := true
		tn := a.Type().Name()
		for i := 0; i < a.NumField(); i++ {
			fa, fb := a.Field(i), b.Field(i)
			if fa.Type() == faPosType {
				switch tn + "." + a.Type().Field(i).Name {
				case "CallExpr.Ellipsis", "TypeSpec.Assign", "GenDecl.Lparen":
					r = nd.And(r, nd.Iff(fa.Int() != 0, fb.Int() != 0))
				}
				continue
			}
			r = nd.And(r, faEqual(fa, fb))
		}
		return r
	case reflect.String:
		return nd.StrEq(a.String(), b.String())
	case reflect.Int:
		return a.Int() == b.Int()
	case reflect.Bool:
		return a.Bool() == b.Bool()
	}
	return true
}

// ---- the run ----

type faRun struct {
	c       faCase
	fset    *token.FileSet
	prog    *Program
	file    *ast.File
	base    int
	holes   []faHole
	sites   []faSite
	locs    []*faLoc
	leaves  [][]*faLeaf // per site
	want    []bool      // per site
	fillers []map[string]string
	src     string
	rest    []*faLeaf // leaves outside all sites (symbolised by symboliseRest)
}

func faPrepare(c faCase) *faRun {
	r := &faRun{c: c, fset: token.NewFileSet()}
	pp, err := parse.Parse(r.fset, "p.patch", []byte(c.patch))
	if err != nil {
		panic("harness: catalogue patch does not parse: " + c.name + ": " + err.Error())
	}
	r.prog, err = Compile(r.fset, pp)
	if err != nil {
		panic("harness: catalogue patch does not compile: " + c.name + ": " + err.Error())
	}
	r.src, r.holes, r.sites, r.fillers = faStrip(c.minus, nil)
	r.file, err = parser.ParseFile(r.fset, "a.go", r.src, parser.ParseComments)
	if err != nil {
		panic("harness: catalogue instance does not parse: " + c.name + ": " + err.Error())
	}
	r.base = r.fset.File(r.file.Pos()).Base()
	m := r.prog.Changes[0].matcher.NodeMatcher
	for _, s := range r.sites {
		// the catalogue instance must be an instance: the concrete match selects the node
		if c.nonInstance {
			// deliberately not an instance: the innermost node spanning the site
			r.locs = append(r.locs, faFind(r.file, r.base, s, nil))
			continue
		}
		r.locs = append(r.locs, faFind(r.file, r.base, s, func(n ast.Node) bool {
			_, ok := m.Match(reflect.ValueOf(n), data.New(), nodeRegion(n))
			return ok
		}))
	}
	return r
}

// symboliseSite makes the leaves of site k symbolic and computes its "is an instance" term.
func (r *faRun) symboliseSite(k int) {
	for len(r.leaves) <= k {
		r.leaves = append(r.leaves, nil)
		r.want = append(r.want, true)
	}
	w := &faWalker{base: r.base, holes: r.holes, ords: map[int]int{}, roots: map[int]reflect.Value{}}
	loc := r.locs[k]
	if loc.stmts {
		var list []ast.Stmt
		switch n := loc.node.(type) {
		case *ast.BlockStmt:
			list = n.List
		case *ast.CaseClause:
			list = n.Body
		case *ast.CommClause:
			list = n.Body
		}
		for i, st := range list {
			lo, hi := int(st.Pos())-r.base, int(st.End())-r.base
			if lo >= r.sites[k].lo && hi <= r.sites[k].hi {
				w.walk(reflect.ValueOf(st), -1, fmt.Sprintf("stmt[%d]", i))
			}
		}
	} else {
		w.walk(reflect.ValueOf(loc.node), -1, "site")
	}
	faSymbolise(w.leaves)
	r.leaves[k] = w.leaves
	var hs []faHole
	hs = append(hs, r.holes...)
	r.want[k] = faWant(w.leaves, hs, w.roots, r.c.idents)
}

// expected builds the AST the '+' template prescribes for site k, with the
// symbolic leaves of the captured code substituted into the «x» occurrences.
func (r *faRun) expected(k int) (reflect.Value, bool) {
	if r.c.plus == "" {
		return reflect.Value{}, false
	}
	src, holes, sites, _ := faStrip(r.c.plus, r.fillers)
	fset := token.NewFileSet()
	f, err := parser.ParseFile(fset, "b.go", src, parser.ParseComments)
	if err != nil {
		panic("harness: expected-result template does not parse: " + r.c.name + ": " + err.Error())
	}
	base := fset.File(f.Pos()).Base()
	want := reflect.TypeOf(r.locs[k].node)
	loc := faFind(f, base, sites[k], func(n ast.Node) bool { return r.locs[k].stmts || reflect.TypeOf(n) == want })
	w := &faWalker{base: base, holes: holes, ords: map[int]int{}}
	w.walk(reflect.ValueOf(loc.node), -1, "exp")
	for _, l := range w.leaves {
		if l.hole < 0 {
			continue
		}
		h := holes[l.hole]
		// corresponding leaf of the first occurrence of h.name at this site on the minus side
		src := -1
		for j, mh := range r.holes {
			if mh.name == h.name && mh.site == k {
				src = j
				break
			}
		}
		if src < 0 {
			continue
		}
		ml := faHoleLeaves(r.leaves[k], src)
		if l.ord >= len(ml) {
			panic("harness: filler shape mismatch in " + r.c.name)
		}
		m := ml[l.ord]
		switch m.kind {
		case faIdent, faLit:
			l.addr.SetString(m.symS)
		default:
			l.addr.SetInt(int64(m.symI))
		}
	}
	if loc.stmts {
		return reflect.ValueOf(loc.node), true
	}
	return reflect.ValueOf(loc.node), true
}

// ---- structural near-misses ----

type faSliceRef struct {
	v    reflect.Value // settable slice
	hole int
	path string
}

// faSlices collects every non-empty list (arguments, elements, statements,
// fields, names, ...) below the site that lies outside single-occurrence holes.
func faSlices(v reflect.Value, w *faWalker, hole int, path string, out *[]faSliceRef) {
	switch v.Kind() {
	case reflect.Interface:
		if !v.IsNil() {
			faSlices(v.Elem(), w, hole, path, out)
		}
	case reflect.Ptr:
		if v.IsNil() {
			return
		}
		switch v.Type() {
		case faObjType, faScopeType, faCGType:
			return
		}
		if v.Type().Implements(faNodeType) {
			hole = w.holeOf(v.Interface().(ast.Node), hole)
		}
		faSlices(v.Elem(), w, hole, path, out)
	case reflect.Slice:
		if v.Len() > 0 && v.CanSet() {
			*out = append(*out, faSliceRef{v, hole, path})
		}
		for i := 0; i < v.Len(); i++ {
			faSlices(v.Index(i), w, hole, fmt.Sprintf("%s[%d]", path, i), out)
		}
	case reflect.Struct:
		for i := 0; i < v.NumField(); i++ {
			faSlices(v.Field(i), w, hole, path+"."+v.Type().Name()+"."+v.Type().Field(i).Name, out)
		}
	}
}

// nearMiss applies the sel-th structural near-miss to site k (1-based; 0 =
// none) and reports whether it destroys instance-hood: an element duplicated
// at the end of, or dropped from, a list outside the metavariable holes, or
// inside a later occurrence of a repeated metavariable.
func (r *faRun) nearMiss(k, sel int) (applied bool, count int) {
	w := &faWalker{base: r.base, holes: r.holes, ords: map[int]int{}}
	var refs []faSliceRef
	loc := r.locs[k]
	if loc.stmts {
		return false, 0 // statement runs sit between implicit elisions: extra statements are allowed
	}
	faSlices(reflect.ValueOf(loc.node), w, -1, "site", &refs)
	// keep lists outside holes and lists inside non-first occurrences of repeated metavariables
	firstOcc := map[string]int{}
	for i, h := range r.holes {
		if _, ok := firstOcc[h.name]; !ok && h.site == k {
			firstOcc[h.name] = i
		}
	}
	var usable []faSliceRef
	for _, s := range refs {
		if s.hole < 0 || firstOcc[r.holes[s.hole].name] != s.hole {
			usable = append(usable, s)
		}
	}
	count = 2 * len(usable)
	if sel <= 0 || sel > count {
		return false, count
	}
	s := usable[(sel-1)/2]
	if (sel-1)%2 == 0 {
		s.v.Set(reflect.Append(s.v, s.v.Index(s.v.Len()-1)))
	} else {
		if s.v.Len() == 1 {
			// an emptied list is often not a realisable AST (a declaration
			// without specs, an assignment without operands)
			return false, count
		}
		s.v.Set(s.v.Slice(0, s.v.Len()-1))
	}
	return true, count
}

// ---- whole-file expectations ----

// expectedFile parses the '+' template of the whole file and substitutes the
// symbolic leaves of the captured code into every «x» occurrence.
func (r *faRun) expectedFile() *ast.File {
	src, holes, psites, _ := faStrip(r.c.plus, r.fillers)
	fset := token.NewFileSet()
	f, err := parser.ParseFile(fset, "b.go", src, parser.ParseComments)
	if err != nil {
		panic("harness: expected-result template does not parse: " + r.c.name + ": " + err.Error())
	}
	base := fset.File(f.Pos()).Base()
	r.applyRest(f, base, psites)
	w := &faWalker{base: base, holes: holes, ords: map[int]int{}}
	w.walk(reflect.ValueOf(f), -1, "exp")
	for _, l := range w.leaves {
		if l.hole < 0 {
			continue
		}
		h := holes[l.hole]
		srcHole := -1
		for j, mh := range r.holes {
			if mh.name == h.name && mh.site == h.site {
				srcHole = j
				break
			}
		}
		if srcHole < 0 || h.site < 0 || h.site >= len(r.leaves) {
			continue
		}
		ml := faHoleLeaves(r.leaves[h.site], srcHole)
		if l.ord >= len(ml) {
			panic(fmt.Sprintf("harness: filler shape mismatch in %s: hole %q site %d ord %d of %d (src hole %d) path %s", r.c.name, h.name, h.site, l.ord, len(ml), srcHole, l.path))
		}
		m := ml[l.ord]
		switch m.kind {
		case faIdent, faLit:
			if m.symS != "" {
				l.addr.SetString(m.symS)
			}
		default:
			l.addr.SetInt(int64(m.symI))
		}
	}
	return f
}

// ---- symbolising the code AROUND the sites (C05) ----

// faRestSkipImports: import declarations are not symbolised (set by cases whose patch adds imports).
var faRestSkipImports bool

// restLeaves collects, in DFS order, the leaves of the file that lie outside every site.
func faRestLeaves(f *ast.File, base int, sites []faSite) []*faLeaf {
	w := &faWalker{base: base, ords: map[int]int{}, skipImports: faRestSkipImports}
	for k, s := range sites {
		w.holes = append(w.holes, faHole{name: fmt.Sprintf("site%d", k), lo: s.lo, hi: s.hi, site: k})
	}
	w.walk(reflect.ValueOf(f), -1, "file")
	var out []*faLeaf
	for _, l := range w.leaves {
		if l.hole < 0 {
			out = append(out, l)
		}
	}
	return out
}

// symboliseRest makes identifier tails and literal bytes of all code outside
// the sites symbolic (the first byte of a name stays, so surrounding code
// cannot turn into another instance of the pattern).
func (r *faRun) symboliseRest() {
	r.rest = faRestLeaves(r.file, r.base, r.sites)
	for k, l := range r.rest {
		tag := fmt.Sprintf("rest%d", k)
		switch l.kind {
		case faIdent:
			o := l.orig.String()
			if len(o) < 2 || o == "_" {
				l.symS = o
				continue
			}
			t := nd.Str(tag, len(o)-1)
			for i := 0; i < len(t); i++ {
				nd.Assume(nd.Or(faIsLetter(t[i]), nd.And(t[i] >= '0', t[i] <= '9')))
			}
			l.symS = o[:1] + t
			l.addr.SetString(l.symS)
		case faLit:
			o := l.orig.String()
			if len(o) < 3 || (o[0] != '"' && o[0] != '`') {
				l.symS = o
				continue
			}
			t := nd.Str(tag, len(o)-2)
			for i := 0; i < len(t); i++ {
				nd.Assume(nd.And(t[i] >= 'a', t[i] <= 'z'))
			}
			l.symS = o[:1] + t + o[len(o)-1:]
			l.addr.SetString(l.symS)
		default:
			l.symI = int(l.orig.Int())
		}
	}
}

// applyRest gives the code outside the sites of an expected file the same symbolic leaves.
func (r *faRun) applyRest(f *ast.File, base int, sites []faSite) {
	if r.rest == nil {
		return
	}
	exp := faRestLeaves(f, base, sites)
	if len(exp) != len(r.rest) {
		panic(fmt.Sprintf("harness: surrounding code differs between the templates of %s (%d vs %d leaves)", r.c.name, len(exp), len(r.rest)))
	}
	for i, l := range exp {
		m := r.rest[i]
		if l.kind != m.kind {
			panic("harness: surrounding code differs between the templates of " + r.c.name)
		}
		switch l.kind {
		case faIdent, faLit:
			l.addr.SetString(m.symS)
		}
	}
}
