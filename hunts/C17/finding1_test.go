package patch_test

// Finding 1 (C17): goes in directory  patch/  (package patch_test).
//
// A patch that only ADDS an import makes astutil.AddNamedImport merge the
// two single-line import declarations into one group. The declaration list
// shrinks by one, the structural diff in internal/astdiff pairs
// `import "strings"` with the untouched `type U0` (script M M X M) and
// treats U0 as deleted, so every comment inside U0 is removed.

import (
	"strings"
	"testing"

	"github.com/uber-go/gopatch/patch"
)

func TestFinding1_UntouchedDeclLosesInnerComments(t *testing.T) {
	const p = `@@
@@
+import "example.com/pkg"

-foo()
+pkg.Bar()
`
	const src = `package a

import "fmt"
import "strings"

// U0 doc
type U0 interface {
	// U0 inside 1
	M(fmt.Stringer, strings.Builder) // U0 inside 2
} // U0 trailing

func T1() {
	foo()
}
`
	f, err := patch.Parse("p.patch", []byte(p))
	if err != nil {
		t.Fatal(err)
	}
	out, err := f.Apply("a.go", []byte(src))
	if err != nil {
		t.Fatal(err)
	}
	for _, c := range []string{"// U0 doc", "// U0 inside 1", "// U0 inside 2", "// U0 trailing"} {
		if n := strings.Count(string(out), c); n != 1 {
			t.Errorf("comment %q of untouched declaration U0 appears %d times in output, want 1\n%s", c, n, out)
		}
	}
}

// Same defect, second symptom: the comment groups emptied in the untouched
// declaration are still referenced from the AST (Field.Doc / Field.Comment),
// so the next change of the same patch panics in engine.nodeRegion
// (ast.CommentGroup.Pos on an empty group).
func TestFinding1_SecondChangePanics(t *testing.T) {
	const p = `@@
@@
+import "example.com/pkg"

-foo()
+pkg.Bar()

@@
var x identifier
@@
-var x = OLD
+const x = NEW
`
	const src = `package a

import "fmt"
import "strings"

type U0 interface {
	// U0:m
	M() // U0:mt
}

func T1() {
	foo()
}

var T3 = OLD
`
	f, err := patch.Parse("p.patch", []byte(p))
	if err != nil {
		t.Fatal(err)
	}
	defer func() {
		if r := recover(); r != nil {
			t.Fatalf("Apply panicked: %v", r)
		}
	}()
	out, err := f.Apply("a.go", []byte(src))
	if err != nil {
		t.Fatal(err)
	}
	for _, c := range []string{"// U0:m\n", "// U0:mt"} {
		if !strings.Contains(string(out), c) {
			t.Errorf("comment %q lost\n%s", c, out)
		}
	}
}
