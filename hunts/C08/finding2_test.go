package patch

// Goes in: patch/ (package github.com/uber-go/gopatch/patch).
//
// C08: "It never panics ... whether the patch is malformed, truncated, or
// well-formed but ill-typed".
// A "..." on a "+" line in a position that is not an element of a statement,
// expression or field list (an operand, a condition, a type, ...) is accepted
// by Parse, is not checked against the "-" side, and is copied into the
// rewritten file as a *pgo.Dots node, on which ast.Walk panics.

import (
	"fmt"
	"testing"
)

func TestFinding2_DotsOutsideListOnPlusSide(t *testing.T) {
	const goSrc = "package a\n\nfunc x() {\n\tfoo(1 + 2)\n}\n"

	for _, plus := range []string{
		"foo(... + 1)",
		"if ... { bar() }",
		"return (...)",
		"switch ... {}",
		"x.(...)",
		"foo(*...)",
		"foo([]...{})",
		"foo(T{a: ...})",
		"for range ... {}",
	} {
		t.Run(plus, func(t *testing.T) {
			patchSrc := "@@\n@@\n-foo(1 + 2)\n+" + plus + "\n"
			defer func() {
				if p := recover(); p != nil {
					t.Fatalf("panic instead of an error: %v", fmt.Sprint(p))
				}
			}()
			f, err := Parse("p.patch", []byte(patchSrc))
			if err != nil {
				return // a diagnostic is fine
			}
			_, _ = f.Apply("a.go", []byte(goSrc))
		})
	}
}
