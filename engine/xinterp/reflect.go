// Copyright 2013 The Go Authors. All rights reserved.
// Use of this source code is governed by a BSD-style
// license that can be found in the LICENSE file.

package interp

// Emulated "reflect" package.
//
// We completely replace the built-in "reflect" package.
// The only thing clients can depend upon are that reflect.Type is an
// interface and reflect.Value is an (opaque) struct.

import (
	"fmt"
	"go/token"
	"go/types"
	"reflect"
	"unsafe"

	"golang.org/x/tools/go/ssa"
)

type opaqueType struct {
	types.Type
	name string
}

func (t *opaqueType) String() string { return t.name }

// A bogus "reflect" type-checker package.  Shared across interpreters.
var reflectTypesPackage = types.NewPackage("reflect", "reflect")

// rtype is the concrete type the interpreter uses to implement the
// reflect.Type interface.
//
// type rtype <opaque>
var rtypeType = makeNamedType("rtype", &opaqueType{nil, "rtype"})

// error is an (interpreted) named type whose underlying type is string.
// The interpreter uses it for all implementations of the built-in error
// interface that it creates.
// We put it in the "reflect" package for expedience.
//
// type error string
var errorType = makeNamedType("error", &opaqueType{nil, "error"})

func makeNamedType(name string, underlying types.Type) *types.Named {
	obj := types.NewTypeName(token.NoPos, reflectTypesPackage, name, nil)
	return types.NewNamed(obj, underlying, nil)
}

func makeReflectValue(t types.Type, v value) value {
	return structure{rtype{t}, v}
}

// Given a reflect.Value, returns its rtype.
func rV2T(v value) rtype {
	return v.(structure)[0].(rtype)
}

// Given a reflect.Value, returns the underlying interpreter value.
func rV2V(v value) value {
	return v.(structure)[1]
}

// makeReflectType boxes up an rtype in a reflect.Type interface.
func makeReflectType(rt rtype) value {
	return iface{rtypeType, rt}
}

func ext۰reflect۰rtype۰Bits(fr *frame, args []value) value {
	// Signature: func (t reflect.rtype) int
	rt := args[0].(rtype).t
	basic, ok := rt.Underlying().(*types.Basic)
	if !ok {
		panic(fmt.Sprintf("reflect.Type.Bits(%T): non-basic type", rt))
	}
	return int(fr.i.sizes.Sizeof(basic)) * 8
}

func ext۰reflect۰rtype۰Elem(fr *frame, args []value) value {
	// Signature: func (t reflect.rtype) reflect.Type
	return makeReflectType(rtype{args[0].(rtype).t.Underlying().(interface {
		Elem() types.Type
	}).Elem()})
}

func ext۰reflect۰rtype۰Field(fr *frame, args []value) value {
	// Signature: func (t reflect.rtype, i int) reflect.StructField
	st := args[0].(rtype).t.Underlying().(*types.Struct)
	i := args[1].(int)
	f := st.Field(i)
	return structure{
		f.Name(),
		f.Pkg().Path(),
		makeReflectType(rtype{f.Type()}),
		st.Tag(i),
		uintptr(0), // offset: not modelled
		[]value{i}, // index sequence for Type.FieldByIndex (direct field)
		f.Anonymous(),
	}
}

func ext۰reflect۰rtype۰In(fr *frame, args []value) value {
	// Signature: func (t reflect.rtype, i int) int
	i := args[1].(int)
	return makeReflectType(rtype{args[0].(rtype).t.(*types.Signature).Params().At(i).Type()})
}

func ext۰reflect۰rtype۰Kind(fr *frame, args []value) value {
	// Signature: func (t reflect.rtype) uint
	return uint(reflectKind(args[0].(rtype).t))
}

func ext۰reflect۰rtype۰NumField(fr *frame, args []value) value {
	// Signature: func (t reflect.rtype) int
	return args[0].(rtype).t.Underlying().(*types.Struct).NumFields()
}

func ext۰reflect۰rtype۰NumIn(fr *frame, args []value) value {
	// Signature: func (t reflect.rtype) int
	return args[0].(rtype).t.Underlying().(*types.Signature).Params().Len()
}

func ext۰reflect۰rtype۰NumMethod(fr *frame, args []value) value {
	// Signature: func (t reflect.rtype) int
	return fr.i.prog.MethodSets.MethodSet(args[0].(rtype).t).Len()
}

func ext۰reflect۰rtype۰NumOut(fr *frame, args []value) value {
	// Signature: func (t reflect.rtype) int
	return args[0].(rtype).t.Underlying().(*types.Signature).Results().Len()
}

func ext۰reflect۰rtype۰Out(fr *frame, args []value) value {
	// Signature: func (t reflect.rtype, i int) int
	i := args[1].(int)
	return makeReflectType(rtype{args[0].(rtype).t.Underlying().(*types.Signature).Results().At(i).Type()})
}

func ext۰reflect۰rtype۰Size(fr *frame, args []value) value {
	// Signature: func (t reflect.rtype) uintptr
	return uintptr(fr.i.sizes.Sizeof(args[0].(rtype).t))
}

func ext۰reflect۰rtype۰String(fr *frame, args []value) value {
	// Signature: func (t reflect.rtype) string
	// reflect qualifies named types by package NAME ("*ast.Ident"), not by import path
	return types.TypeString(args[0].(rtype).t, func(p *types.Package) string { return p.Name() })
}

func ext۰reflect۰New(fr *frame, args []value) value {
	// Signature: func (t reflect.Type) reflect.Value
	t := args[0].(iface).v.(rtype).t
	alloc := zero(t)
	return makeReflectValue(types.NewPointer(t), &alloc)
}

func ext۰reflect۰SliceOf(fr *frame, args []value) value {
	// Signature: func (t reflect.rtype) Type
	return makeReflectType(rtype{types.NewSlice(args[0].(iface).v.(rtype).t)})
}

func ext۰reflect۰TypeOf(fr *frame, args []value) value {
	// Signature: func (t reflect.rtype) Type
	return makeReflectType(rtype{args[0].(iface).t})
}

func ext۰reflect۰ValueOf(fr *frame, args []value) value {
	// Signature: func (interface{}) reflect.Value
	itf := args[0].(iface)
	return makeReflectValue(itf.t, itf.v)
}

func ext۰reflect۰Zero(fr *frame, args []value) value {
	// Signature: func (t reflect.Type) reflect.Value
	t := args[0].(iface).v.(rtype).t
	return makeReflectValue(t, zero(t))
}

func reflectKind(t types.Type) reflect.Kind {
	switch t := t.(type) {
	case *types.Named, *types.Alias:
		return reflectKind(t.Underlying())
	case *types.Basic:
		switch t.Kind() {
		case types.Bool:
			return reflect.Bool
		case types.Int:
			return reflect.Int
		case types.Int8:
			return reflect.Int8
		case types.Int16:
			return reflect.Int16
		case types.Int32:
			return reflect.Int32
		case types.Int64:
			return reflect.Int64
		case types.Uint:
			return reflect.Uint
		case types.Uint8:
			return reflect.Uint8
		case types.Uint16:
			return reflect.Uint16
		case types.Uint32:
			return reflect.Uint32
		case types.Uint64:
			return reflect.Uint64
		case types.Uintptr:
			return reflect.Uintptr
		case types.Float32:
			return reflect.Float32
		case types.Float64:
			return reflect.Float64
		case types.Complex64:
			return reflect.Complex64
		case types.Complex128:
			return reflect.Complex128
		case types.String:
			return reflect.String
		case types.UnsafePointer:
			return reflect.UnsafePointer
		}
	case *types.Array:
		return reflect.Array
	case *types.Chan:
		return reflect.Chan
	case *types.Signature:
		return reflect.Func
	case *types.Interface:
		return reflect.Interface
	case *types.Map:
		return reflect.Map
	case *types.Pointer:
		return reflect.Ptr
	case *types.Slice:
		return reflect.Slice
	case *types.Struct:
		return reflect.Struct
	}
	panic(fmt.Sprint("unexpected type: ", t))
}

func ext۰reflect۰Value۰Kind(fr *frame, args []value) value {
	// Signature: func (reflect.Value) uint
	return uint(reflectKind(rV2T(args[0]).t))
}

func ext۰reflect۰Value۰String(fr *frame, args []value) value {
	// Signature: func (reflect.Value) string
	return toString(rV2V(args[0]))
}

func ext۰reflect۰Value۰Type(fr *frame, args []value) value {
	// Signature: func (reflect.Value) reflect.Type
	return makeReflectType(rV2T(args[0]))
}

func ext۰reflect۰Value۰Uint(fr *frame, args []value) value {
	// Signature: func (reflect.Value) uint64
	switch v := rV2V(args[0]).(type) {
	case uint:
		return uint64(v)
	case uint8:
		return uint64(v)
	case uint16:
		return uint64(v)
	case uint32:
		return uint64(v)
	case uint64:
		return uint64(v)
	case uintptr:
		return uint64(v)
	}
	panic("reflect.Value.Uint")
}

func ext۰reflect۰Value۰Len(fr *frame, args []value) value {
	// Signature: func (reflect.Value) int
	switch v := rV2V(args[0]).(type) {
	case string:
		return len(v)
	case array:
		return len(v)
	case chan value:
		return cap(v)
	case []value:
		return len(v)
	case *hashmap:
		return v.len()
	default:
		panic(fmt.Sprintf("reflect.(Value).Len(%v)", v))
	}
}

func ext۰reflect۰Value۰MapIndex(fr *frame, args []value) value {
	// Signature: func (reflect.Value) Value
	tValue := rV2T(args[0]).t.Underlying().(*types.Map).Key()
	k := rV2V(args[1])
	switch m := rV2V(args[0]).(type) {
	case *hashmap:
		if v := m.lookup(k); v != nil {
			return makeReflectValue(tValue, v)
		}

	default:
		panic(fmt.Sprintf("(reflect.Value).MapIndex(%T, %T)", m, k))
	}
	return makeReflectValue(nil, nil)
}

func ext۰reflect۰Value۰MapKeys(fr *frame, args []value) value {
	// Signature: func (reflect.Value) []Value
	var keys []value
	tKey := rV2T(args[0]).t.Underlying().(*types.Map).Key()
	switch v := rV2V(args[0]).(type) {
	case *hashmap:
		for _, e := range v.live() {
			keys = append(keys, makeReflectValue(tKey, e.key))
		}

	default:
		panic(fmt.Sprintf("(reflect.Value).MapKeys(%T)", v))
	}
	return keys
}

func ext۰reflect۰Value۰NumField(fr *frame, args []value) value {
	// Signature: func (reflect.Value) int
	return len(rV2V(args[0]).(structure))
}

func ext۰reflect۰Value۰NumMethod(fr *frame, args []value) value {
	// Signature: func (reflect.Value) int
	return fr.i.prog.MethodSets.MethodSet(rV2T(args[0]).t).Len()
}

func ext۰reflect۰Value۰Pointer(fr *frame, args []value) value {
	// Signature: func (v reflect.Value) uintptr
	switch v := rV2V(args[0]).(type) {
	case *value:
		return uintptr(unsafe.Pointer(v))
	case chan value:
		return reflect.ValueOf(v).Pointer()
	case []value:
		return reflect.ValueOf(v).Pointer()
	case *hashmap:
		return uintptr(unsafe.Pointer(v))
	case *ssa.Function:
		return uintptr(unsafe.Pointer(v))
	case *closure:
		return uintptr(unsafe.Pointer(v))
	default:
		panic(fmt.Sprintf("reflect.(Value).Pointer(%T)", v))
	}
}

func ext۰reflect۰Value۰Index(fr *frame, args []value) value {
	// Signature: func (v reflect.Value, i int) Value
	i := args[1].(int)
	t := rV2T(args[0]).t.Underlying()
	switch v := rV2V(args[0]).(type) {
	case array:
		return makeReflectValue(t.(*types.Array).Elem(), v[i])
	case []value:
		return makeReflectValue(t.(*types.Slice).Elem(), v[i])
	default:
		panic(fmt.Sprintf("reflect.(Value).Index(%T)", v))
	}
}

func ext۰reflect۰Value۰Bool(fr *frame, args []value) value {
	// Signature: func (reflect.Value) bool
	return rV2V(args[0]).(bool)
}

func ext۰reflect۰Value۰CanAddr(fr *frame, args []value) value {
	// Signature: func (v reflect.Value) bool
	// Always false for our representation.
	return false
}

func ext۰reflect۰Value۰CanInterface(fr *frame, args []value) value {
	// Signature: func (v reflect.Value) bool
	// Always true for our representation.
	return true
}

func ext۰reflect۰Value۰Elem(fr *frame, args []value) value {
	// Signature: func (v reflect.Value) reflect.Value
	switch x := rV2V(args[0]).(type) {
	case iface:
		return makeReflectValue(x.t, x.v)
	case *value:
		var v value
		if x != nil {
			v = *x
		}
		return makeReflectValue(rV2T(args[0]).t.Underlying().(*types.Pointer).Elem(), v)
	default:
		panic(fmt.Sprintf("reflect.(Value).Elem(%T)", x))
	}
}

func ext۰reflect۰Value۰Field(fr *frame, args []value) value {
	// Signature: func (v reflect.Value, i int) reflect.Value
	v := args[0]
	i := args[1].(int)
	return makeReflectValue(rV2T(v).t.Underlying().(*types.Struct).Field(i).Type(), rV2V(v).(structure)[i])
}

func ext۰reflect۰Value۰Float(fr *frame, args []value) value {
	// Signature: func (reflect.Value) float64
	switch v := rV2V(args[0]).(type) {
	case float32:
		return float64(v)
	case float64:
		return float64(v)
	}
	panic("reflect.Value.Float")
}

func ext۰reflect۰Value۰Interface(fr *frame, args []value) value {
	// Signature: func (v reflect.Value) interface{}
	return ext۰reflect۰valueInterface(fr, args)
}

func ext۰reflect۰Value۰Int(fr *frame, args []value) value {
	// Signature: func (reflect.Value) int64
	switch x := rV2V(args[0]).(type) {
	case int:
		return int64(x)
	case int8:
		return int64(x)
	case int16:
		return int64(x)
	case int32:
		return int64(x)
	case int64:
		return x
	default:
		panic(fmt.Sprintf("reflect.(Value).Int(%T)", x))
	}
}

func ext۰reflect۰Value۰IsNil(fr *frame, args []value) value {
	// Signature: func (reflect.Value) bool
	switch x := rV2V(args[0]).(type) {
	case *value:
		return x == nil
	case chan value:
		return x == nil
	case *hashmap:
		return x == nil
	case iface:
		return x.t == nil
	case []value:
		return x == nil
	case *ssa.Function:
		return x == nil
	case *ssa.Builtin:
		return x == nil
	case *closure:
		return x == nil
	default:
		panic(fmt.Sprintf("reflect.(Value).IsNil(%T)", x))
	}
}

func ext۰reflect۰Value۰IsValid(fr *frame, args []value) value {
	// Signature: func (reflect.Value) bool
	return rV2V(args[0]) != nil
}

func ext۰reflect۰Value۰Set(fr *frame, args []value) value {
	// TODO(adonovan): implement.
	return nil
}

func ext۰reflect۰valueInterface(fr *frame, args []value) value {
	// Signature: func (v reflect.Value, safe bool) interface{}
	v := args[0].(structure)
	return iface{rV2T(v).t, rV2V(v)}
}

func ext۰reflect۰error۰Error(fr *frame, args []value) value {
	return args[0]
}

// newMethod creates a new method of the specified name, package and receiver type.
func newMethod(pkg *ssa.Package, recvType types.Type, name string) *ssa.Function {
	// TODO(adonovan): fix: hack: currently the only part of Signature
	// that is needed is the "pointerness" of Recv.Type, and for
	// now, we'll set it to always be false since we're only
	// concerned with rtype.  Encapsulate this better.
	sig := types.NewSignature(types.NewVar(token.NoPos, nil, "recv", recvType), nil, nil, false)
	fn := pkg.Prog.NewFunction(name, sig, "fake reflect method")
	fn.Pkg = pkg
	return fn
}

func initReflect(i *interpreter) {
	i.reflectPackage = &ssa.Package{
		Prog:    i.prog,
		Pkg:     reflectTypesPackage,
		Members: make(map[string]ssa.Member),
	}

	// Clobber the type-checker's notion of reflect.Value's
	// underlying type so that it more closely matches the fake one
	// (at least in the number of fields---we lie about the type of
	// the rtype field).
	//
	// We must ensure that calls to (ssa.Value).Type() return the
	// fake type so that correct "shape" is used when allocating
	// variables, making zero values, loading, and storing.
	//
	// TODO(adonovan): obviously this is a hack.  We need a cleaner
	// way to fake the reflect package (almost---DeepEqual is fine).
	// One approach would be not to even load its source code, but
	// provide fake source files.  This would guarantee that no bad
	// information leaks into other packages.
	if r := i.prog.ImportedPackage("reflect"); r != nil {
		rV := r.Pkg.Scope().Lookup("Value").Type().(*types.Named)

		// delete bodies of the old methods
		mset := i.prog.MethodSets.MethodSet(rV)
		for j := 0; j < mset.Len(); j++ {
			i.prog.MethodValue(mset.At(j)).Blocks = nil
		}

		tEface := types.NewInterface(nil, nil).Complete()
		rV.SetUnderlying(types.NewStruct([]*types.Var{
			types.NewField(token.NoPos, r.Pkg, "t", tEface, false), // a lie
			types.NewField(token.NoPos, r.Pkg, "v", tEface, false),
			types.NewField(token.NoPos, r.Pkg, "a", tEface, false),
		}, nil))
	}

	i.rtypeMethods = methodSet{
		"Bits":      newMethod(i.reflectPackage, rtypeType, "Bits"),
		"Elem":      newMethod(i.reflectPackage, rtypeType, "Elem"),
		"Field":     newMethod(i.reflectPackage, rtypeType, "Field"),
		"In":        newMethod(i.reflectPackage, rtypeType, "In"),
		"Kind":      newMethod(i.reflectPackage, rtypeType, "Kind"),
		"NumField":  newMethod(i.reflectPackage, rtypeType, "NumField"),
		"NumIn":     newMethod(i.reflectPackage, rtypeType, "NumIn"),
		"NumMethod": newMethod(i.reflectPackage, rtypeType, "NumMethod"),
		"NumOut":    newMethod(i.reflectPackage, rtypeType, "NumOut"),
		"Out":       newMethod(i.reflectPackage, rtypeType, "Out"),
		"Size":      newMethod(i.reflectPackage, rtypeType, "Size"),
		"String":    newMethod(i.reflectPackage, rtypeType, "String"),
	}
	initReflect2(i)
	i.errorMethods = methodSet{
		"Error": newMethod(i.reflectPackage, errorType, "Error"),
	}
}
