package main

// finding2_test.go -- goes in the repository root (package main).
//
// C07 (arguable, low severity): "Whenever gopatch reports success for a file
// and emits new content for it (... printed by --print-only ...), that
// content parses as a Go source file ... with every flag combination."
//
// With --print-only together with -v, the per-file log lines
// ("<path>: patched" / "<path>: skipped") are written to the same stream as
// the file content (stdout), so what --print-only prints is no longer a Go
// source file.

import (
	"bytes"
	"go/parser"
	"go/token"
	"os"
	"path/filepath"
	"strings"
	"testing"
)

func TestFinding2_VerbosePrintOnlyStdoutIsNotGo(t *testing.T) {
	dir := t.TempDir()
	pf := filepath.Join(dir, "p.patch")
	sf := filepath.Join(dir, "in.go")
	os.WriteFile(pf, []byte("@@\n@@\n-foo()\n+bar()\n"), 0o644)
	os.WriteFile(sf, []byte("package p\n\nfunc f() { foo() }\n"), 0o644)

	var stdout, stderr bytes.Buffer
	cmd := mainCmd{
		Stdin:  strings.NewReader(""),
		Stdout: &stdout,
		Stderr: &stderr,
		Getwd:  func() (string, error) { return dir, nil },
	}
	if err := cmd.Run([]string{"-p", pf, "-v", "--print-only", sf}); err != nil {
		t.Fatal(err)
	}
	if _, err := parser.ParseFile(token.NewFileSet(), "in.go", stdout.Bytes(), parser.AllErrors); err != nil {
		t.Errorf("stdout of --print-only -v does not parse as Go: %v\n%s", err, stdout.String())
	}
}
