package patch

// Finding 4 (C05): comments at the end of a block (for example the
// "// Output:" block of an Example function) are deleted by an expression
// patch when a rewritten statement becomes identical to an unchanged
// statement earlier in the block. The list differ pairs the unchanged
// statement with the rewritten one and reports the last statement as deleted,
// together with everything up to the closing brace.
//
// Goes in directory: patch/

import (
	"strings"
	"testing"
)

func TestFinding4_TrailingBlockCommentDeleted(t *testing.T) {
	const patch = `@@
@@
-oldFlush(...)
+flush(...)
`
	const src = `package a

func Example() {
	oldFlush(w)
	flush()
	oldFlush()

	// Output:
	// done
}
`
	p, err := Parse("p.patch", []byte(patch))
	if err != nil {
		t.Fatal(err)
	}
	outb, err := p.Apply("a.go", []byte(src))
	if err != nil {
		t.Fatal(err)
	}
	out := string(outb)
	if !strings.Contains(out, "// Output:\n\t// done\n") {
		t.Errorf("the \"// Output:\" comment, which no match touches, was deleted:\n%s", out)
	}
}
