package patch

// Goes in: patch/ (package github.com/uber-go/gopatch/patch).
//
// C08: "It never panics". goast.ImportPath panics ("invalid import path") when
// an import spec's path is not a valid string literal. The parser never
// produces such a spec, but gopatch itself does: a literal pattern also
// rewrites import paths (by design), and the next change that mentions an
// import looks through the file's imports with goast.FindImportSpec.

import (
	"fmt"
	"testing"
)

func TestFinding4_ImportPathPanicsAfterLiteralRewrite(t *testing.T) {
	const patchSrc = "@@\n@@\n-\"fmt\"\n+1\n" +
		"\n@@\n@@\n import \"os\"\n\n-foo()\n+bar()\n"
	const goSrc = "package a\n\nimport (\n\t\"fmt\"\n\t\"os\"\n)\n\nfunc x() {\n\tfmt.Println(os.Args)\n\tfoo()\n}\n"

	defer func() {
		if p := recover(); p != nil {
			t.Fatalf("panic instead of an error: %v", fmt.Sprint(p))
		}
	}()
	f, err := Parse("p.patch", []byte(patchSrc))
	if err != nil {
		t.Fatalf("patch must parse: %v", err)
	}
	_, _ = f.Apply("a.go", []byte(goSrc))
}
