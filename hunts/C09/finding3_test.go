package main

import (
	"bytes"
	"fmt"
	"go/ast"
	"go/format"
	"go/parser"
	"go/token"
	"os"
	"path/filepath"
	"strings"
	"testing"

	"golang.org/x/tools/go/ast/astutil"
)

// Finding 3 (C09): "if any step fails, the combined run reports the failure and
// leaves the file untouched".
//
// Step 1 alone fails (its output "if T{a: 1} == v {" is not valid Go, gopatch
// reports `reformat "x.go": ... expected ';', found '=='` and leaves the file
// alone). The combined run never prints/parses the intermediate program, a
// later change happens to rewrite the offending expression, and the run
// succeeds silently with a program that no chain of runs can produce.
func TestC09Finding3_FailingStepGoesUnnoticed(t *testing.T) {
	const src = `package a

func f() {
	ok(T{a: 1} == v)
}
`
	const p1 = `@@
var x expression
@@
-ok(x)
+if x {
+  yes()
+}
`
	const p2 = `@@
@@
-T{a: 1}
+newT(1)
`
	chain := c09ChainF3(t, src, p1, p2)
	if chain.err == nil {
		t.Skipf("step 1 no longer fails on its own; nothing to check:\n%s", chain.out)
	}
	if chain.out != src {
		t.Fatalf("failing step modified the file:\n%s", chain.out)
	}

	comb := c09CombinedF3(t, src, p1, p2)
	if comb.err == nil {
		t.Errorf("C09 violated: step 1 fails on its own (%v) but the combined run reported no failure", chain.err)
	}
	if comb.out != src {
		t.Errorf("C09 violated: a step fails, yet the combined run rewrote the file:\n%s", comb.out)
	}
}

// ---- helper (self-contained; names are suffixed with F3 so that all
// findingN_test.go files can live side by side in package main) ----

type c09RunF3 struct {
	out string // resulting file contents
	err error  // error returned by mainCmd.Run (first failing step for a chain)
}

func c09WriteF3(t *testing.T, path, content string) {
	t.Helper()
	if err := os.MkdirAll(filepath.Dir(path), 0o755); err != nil {
		t.Fatal(err)
	}
	if err := os.WriteFile(path, []byte(content), 0o644); err != nil {
		t.Fatal(err)
	}
}

func c09GopatchF3(dir string, args ...string) error {
	var stdout, stderr bytes.Buffer
	cmd := mainCmd{
		Stdin:  strings.NewReader(""),
		Stdout: &stdout,
		Stderr: &stderr,
		Getwd:  func() (string, error) { return dir, nil },
	}
	return cmd.Run(args)
}

// c09CombinedF3 runs gopatch ONCE with all the patches, in order.
func c09CombinedF3(t *testing.T, src string, patches ...string) c09RunF3 {
	t.Helper()
	dir := t.TempDir()
	c09WriteF3(t, filepath.Join(dir, "x.go"), src)
	var args []string
	for i, p := range patches {
		pp := filepath.Join(dir, fmt.Sprintf("%d.patch", i))
		c09WriteF3(t, pp, p)
		args = append(args, "-p", pp)
	}
	err := c09GopatchF3(dir, append(args, "x.go")...)
	got, rerr := os.ReadFile(filepath.Join(dir, "x.go"))
	if rerr != nil {
		t.Fatal(rerr)
	}
	return c09RunF3{out: string(got), err: err}
}

// c09ChainF3 runs gopatch once per patch, each run starting from the file
// that the previous run produced. It stops at the first failing step.
func c09ChainF3(t *testing.T, src string, patches ...string) c09RunF3 {
	t.Helper()
	dir := t.TempDir()
	c09WriteF3(t, filepath.Join(dir, "x.go"), src)
	var firstErr error
	for i, p := range patches {
		pp := filepath.Join(dir, fmt.Sprintf("%d.patch", i))
		c09WriteF3(t, pp, p)
		if err := c09GopatchF3(dir, "-p", pp, "x.go"); err != nil {
			firstErr = err
			break
		}
	}
	got, rerr := os.ReadFile(filepath.Join(dir, "x.go"))
	if rerr != nil {
		t.Fatal(rerr)
	}
	return c09RunF3{out: string(got), err: firstErr}
}

// c09NormF3 renders src as a syntax tree with comments dropped and
// parenthesis nodes elided, with all white space removed.
func c09NormF3(t *testing.T, src string) string {
	t.Helper()
	fset := token.NewFileSet()
	f, err := parser.ParseFile(fset, "x.go", src, 0)
	if err != nil {
		t.Fatalf("output is not valid Go: %v\n%s", err, src)
	}
	astutil.Apply(f, nil, func(c *astutil.Cursor) bool {
		if p, ok := c.Node().(*ast.ParenExpr); ok {
			c.Replace(p.X)
		}
		return true
	})
	var b bytes.Buffer
	if err := format.Node(&b, fset, f); err != nil {
		t.Fatal(err)
	}
	return strings.Join(strings.Fields(b.String()), "")
}
