package patch

// Shared harness for the library API (patch.File.Apply) over a symbolic
// environment, plus a native realiser.

import (
	"errors"
	"fmt"
	"go/ast"
	"go/parser"
	"go/token"
	"io"
	"strings"

	"github.com/uber-go/gopatch/internal/astdiff"
	"github.com/uber-go/gopatch/internal/data"
	"github.com/uber-go/gopatch/internal/engine"
	"github.com/uber-go/gopatch/internal/zzverif/nd"
	"golang.org/x/tools/imports"
)

type apiEnvT struct {
	changes    []*engine.Change
	ast        *ast.File
	src, out   []byte
	parseErr   bool
	match      []bool
	replaceErr []bool
	formatErr  bool
	parses     bool
	log        []string // match:k replace:k format process
}

var apiEnv *apiEnvT

var apiAllow struct{ parseErr, replaceErr, formatErr, noParse bool }

func apiNewEnv(nchanges int) *apiEnvT {
	e := &apiEnvT{ast: &ast.File{Package: 1, Name: &ast.Ident{NamePos: 9, Name: "p"}}, parses: true}
	for k := 0; k < nchanges; k++ {
		e.changes = append(e.changes, &engine.Change{Name: fmt.Sprintf("c%d", k)})
		e.match = append(e.match, nd.Bool(fmt.Sprintf("match_c%d", k)))
		r := false
		if apiAllow.replaceErr {
			r = nd.Bool(fmt.Sprintf("replaceErr_c%d", k))
		}
		e.replaceErr = append(e.replaceErr, r)
	}
	e.src = append([]byte{'O'}, nd.Bytes("orig", 2)...)
	e.out = append([]byte{'N'}, nd.Bytes("new", 2)...)
	if apiAllow.parseErr {
		e.parseErr = nd.Bool("parseErr")
	}
	if apiAllow.formatErr {
		e.formatErr = nd.Bool("formatErr")
	}
	if apiAllow.noParse {
		e.parses = nd.Bool("parses")
	}
	return e
}

func (e *apiEnvT) idx(c *engine.Change) int {
	for k, x := range e.changes {
		if x == c {
			return k
		}
	}
	return -1
}

func StubAPIParseFile(fset *token.FileSet, filename string, src any, mode parser.Mode) (*ast.File, error) {
	e := apiEnv
	b, _ := src.([]byte)
	if len(b) > 0 && b[0] != 'O' {
		e.log = append(e.log, "reparse")
		if !e.parses {
			return nil, errors.New(filename + ":1:1: expected declaration")
		}
		return e.ast, nil
	}
	if e.parseErr {
		return nil, errors.New(filename + ":1:1: expected 'package'")
	}
	return e.ast, nil
}

func StubAPIMatch(c *engine.Change, f *ast.File) (data.Data, bool) {
	e := apiEnv
	k := e.idx(c)
	e.log = append(e.log, fmt.Sprintf("match:%d", k))
	return data.New(), e.match[k]
}

func StubAPIReplace(c *engine.Change, d data.Data, cl engine.Changelog) (*ast.File, error) {
	e := apiEnv
	k := e.idx(c)
	e.log = append(e.log, fmt.Sprintf("replace:%d", k))
	if e.replaceErr[k] {
		return nil, errors.New("could not replace")
	}
	return e.ast, nil
}

func StubAPIBefore(n ast.Node, comments ast.CommentMap) *astdiff.Snapshot { return nil }
func StubAPIDiff(s *astdiff.Snapshot, n ast.Node, cl astdiff.Changelog) *astdiff.Snapshot {
	return nil
}
func StubAPICommentMap(fset *token.FileSet, node ast.Node, comments []*ast.CommentGroup) ast.CommentMap {
	return nil
}
func StubAPICleanup(tfile *token.File, cl engine.Changelog, comments []*ast.CommentGroup) {}

func StubAPIFormatNode(dst io.Writer, fset *token.FileSet, node any) error {
	e := apiEnv
	e.log = append(e.log, "format")
	if e.formatErr {
		return errors.New("format: invalid AST")
	}
	_, err := dst.Write(e.out)
	return err
}

func StubAPIProcess(filename string, src []byte, opt *imports.Options) ([]byte, error) {
	e := apiEnv
	e.log = append(e.log, "process")
	if !e.parses {
		return nil, errors.New(filename + ":1:1: expected declaration")
	}
	return append([]byte{'I'}, src...), nil
}

func apiFile(e *apiEnvT) *File {
	return &File{fset: token.NewFileSet(), prog: &engine.Program{Changes: e.changes}}
}

// ---- native realiser ----

func apiBit(name string) bool {
	v, ok := nd.Lookup(name)
	return ok && v != 0
}

// apiNative applies a real patch with nchanges changes to a real file that
// realises the model's outcome bits and checks the prescribed behaviour.
func apiNative(nchanges int) {
	var match, rerr []bool
	any := false
	for k := 0; k < nchanges; k++ {
		match = append(match, apiBit(fmt.Sprintf("match_c%d", k)))
		rerr = append(rerr, apiBit(fmt.Sprintf("replaceErr_c%d", k)))
		any = any || match[k]
	}
	_, hasParses := nd.Lookup("parses")
	bad := hasParses && !apiBit("parses") && any
	var pt, src, want strings.Builder
	for k := 0; k < nchanges; k++ {
		fmt.Fprintf(&pt, "@@\nvar x expression\n@@\n-m%d()\n", k)
		if rerr[k] {
			fmt.Fprintf(&pt, "+r%d(x)\n\n", k)
		} else {
			fmt.Fprintf(&pt, "+r%d()\n\n", k)
		}
	}
	pt.WriteString("@@\nvar x expression\n@@\n-var zz = x\n+var zz x\n")
	// no imports on purpose; odd spacing that only a rewrite may normalise
	src.WriteString("package p\n\nvar   odd =  1\n")
	want.WriteString("package p\n\nvar odd = 1\n")
	if apiBit("parseErr") {
		src.Reset()
		src.WriteString("package p\n\nfunc f( {\n")
	}
	if bad {
		src.WriteString("\nvar zz = 1 + 2\n")
	}
	src.WriteString("\nfunc f() {\n")
	want.WriteString("\nfunc f() {\n")
	failing := false
	for k := 0; k < nchanges; k++ {
		if match[k] {
			fmt.Fprintf(&src, "\tm%d()\n", k)
			fmt.Fprintf(&want, "\tr%d()\n", k)
			failing = failing || rerr[k]
		}
	}
	src.WriteString("\tkeep()\n}\n")
	want.WriteString("\tkeep()\n}\n")
	pf, err := Parse("p.patch", []byte(pt.String()))
	if err != nil {
		panic(err)
	}
	got, err := pf.Apply("f.go", []byte(src.String()))
	switch {
	case apiBit("parseErr"), failing, bad:
		if err == nil {
			nd.Fail("API: a failure (unparseable input, failed rewrite or unparseable result) was not reported")
		}
		if got != nil {
			nd.Fail("API: bytes returned together with an error")
		}
	case !any:
		if err != nil || string(got) != src.String() {
			nd.Fail("API: input not returned unchanged although nothing matched")
		}
	default:
		if err != nil {
			nd.Fail("API: unexpected error: " + err.Error())
		} else if string(got) != want.String() {
			nd.Fail("API: result is not the prescribed patched text")
		}
	}
}
