package engine

import (
	"fmt"
	"go/ast"
	"go/parser"
	"go/token"
	"reflect"
	"strings"

	"github.com/uber-go/gopatch/internal/data"
	"github.com/uber-go/gopatch/internal/parse"
	"github.com/uber-go/gopatch/internal/zzverif/nd"
)

// A pattern over an argument list: '.' elision, 'a'/'b' literal names
// ('a' is rewritten to 'z', 'A' is the name a rewritten to the two elements
// 'z', 'w', 'b' is context), 'x'/'y' identifier metavariables.
var c04Patterns = []string{
	".a", "a.", ".a.", "..", ".", ".a.b", ".x.x", "x.x", "a.a", ".aa", ".a.a.", "x.y.x", ".ab.", "b.a", ".x", "x.", "a.b.a", ".a.xx",
	".aab", ".aab.", ".xxb", ".A.", ".A.b", "b.A.", ".A.A.",
	// three elisions with a metavariable bound after the first and used again after the third
	".x.b.x", ".x.a.x.", ".x.y.x",
	// two adjacent elisions (what an explicit leading ' ...' line of a statement patch amounts to, next to the implicit one)
	"..a", "a..b", "..x.x",
}

func c04Patch(pat string, open, close string) string { return c04PatchSep(pat, open, close, ",") }

// c04PatchSep: sep is "," for expression lists and "()" for statement lists
// (elements are then the call statements a(), z(), x() ...).
func c04PatchSep(pat string, open, close, sep string) string {
	var b strings.Builder
	b.WriteString("@@\nvar x, y identifier\n@@\n " + open + "\n")
	dots := "   ...,\n"
	if sep != "," {
		dots = "   ...\n"
	}
	for _, c := range pat {
		switch c {
		case '.':
			b.WriteString(dots)
		case 'a':
			b.WriteString("-  a" + sep + "\n+  z" + sep + "\n")
		case 'A':
			b.WriteString("-  a" + sep + "\n+  z" + sep + "\n+  w" + sep + "\n")
		default:
			fmt.Fprintf(&b, "   %c%s\n", c, sep)
		}
	}
	b.WriteString(" " + close + "\n")
	return b.String()
}

// c04Kind describes one kind of list an elision can stand in.
type c04Kind struct {
	name        string
	open, close string
	sep         string
	src         func(n int) string               // target with n placeholder elements q
	site        func(f *ast.File) ast.Node       // the node the pattern matches
	elems       func(site ast.Node) []*ast.Ident // the identifiers standing for the list elements, in order
	count       func(site ast.Node) int          // number of list elements
}

func c04Repeat(n int, elem, sep string) string {
	var parts []string
	for i := 0; i < n; i++ {
		parts = append(parts, elem)
	}
	return strings.Join(parts, sep)
}

var c04Kinds = []c04Kind{
	{name: "f(", open: "f(", close: ")", sep: ",",
		src:  func(n int) string { return "package p\n\nvar _ = f(" + c04Repeat(n, "q", ", ") + ")\n" },
		site: func(f *ast.File) ast.Node { return f.Decls[0].(*ast.GenDecl).Specs[0].(*ast.ValueSpec).Values[0] },
		elems: func(s ast.Node) (out []*ast.Ident) {
			for _, a := range s.(*ast.CallExpr).Args {
				id, _ := a.(*ast.Ident)
				out = append(out, id)
			}
			return
		},
		count: func(s ast.Node) int { return len(s.(*ast.CallExpr).Args) }},
	{name: "T{", open: "T{", close: "}", sep: ",",
		src:  func(n int) string { return "package p\n\nvar _ = T{" + c04Repeat(n, "q", ", ") + "}\n" },
		site: func(f *ast.File) ast.Node { return f.Decls[0].(*ast.GenDecl).Specs[0].(*ast.ValueSpec).Values[0] },
		elems: func(s ast.Node) (out []*ast.Ident) {
			for _, a := range s.(*ast.CompositeLit).Elts {
				id, _ := a.(*ast.Ident)
				out = append(out, id)
			}
			return
		},
		count: func(s ast.Node) int { return len(s.(*ast.CompositeLit).Elts) }},
	{name: "func g() {", open: "func g() {", close: "}", sep: "()",
		src:  func(n int) string { return "package p\n\nfunc g() {\n" + c04Repeat(n, "\tq()\n", "") + "}\n" },
		site: func(f *ast.File) ast.Node { return f.Decls[0] },
		elems: func(s ast.Node) (out []*ast.Ident) {
			for _, st := range s.(*ast.FuncDecl).Body.List {
				var id *ast.Ident
				if es, ok := st.(*ast.ExprStmt); ok {
					if c, ok := es.X.(*ast.CallExpr); ok && len(c.Args) == 0 {
						id, _ = c.Fun.(*ast.Ident)
					}
				}
				out = append(out, id)
			}
			return
		},
		count: func(s ast.Node) int { return len(s.(*ast.FuncDecl).Body.List) }},
}

// c04Assignments enumerates every way of placing the explicit elements of
// pat on positions of a list of length n (sections contiguous, in order, the
// first anchored at 0 and the last ending at n), in lexicographic order of
// the section start positions. Each assignment maps pattern index -> list index.
func c04Assignments(pat string, n int) [][]int {
	type sec struct{ from, to int } // pattern indices [from,to)
	var secs []sec
	start := 0
	for i := 0; i <= len(pat); i++ {
		if i == len(pat) || pat[i] == '.' {
			secs = append(secs, sec{start, i})
			start = i + 1
		}
	}
	var out [][]int
	cur := make([]int, len(pat))
	for i := range cur {
		cur[i] = -1
	}
	var rec func(k, idx int)
	rec = func(k, idx int) {
		if k == len(secs) {
			if idx == n || (secs[k-1].from == secs[k-1].to && k > 1) {
				out = append(out, append([]int{}, cur...))
			}
			return
		}
		s := secs[k]
		l := s.to - s.from
		place := func(p int) {
			for j := 0; j < l; j++ {
				cur[s.from+j] = p + j
			}
			if k == len(secs)-1 {
				// last section: must end exactly at n (an empty last section swallows the rest)
				if l == 0 || p+l == n {
					end := p + l
					if l == 0 {
						end = n
					}
					rec(k+1, end)
				}
			} else {
				rec(k+1, p+l)
			}
		}
		if k == 0 {
			if l <= n {
				place(0)
			}
			return
		}
		if l == 0 {
			place(idx)
			return
		}
		for p := idx; p+l <= n; p++ {
			place(p)
		}
	}
	rec(0, 0)
	return out
}

// VerifC04Args: a pattern with elisions matches an argument list iff some
// choice of runs lets every explicit element match in order; the first such
// choice (shortest runs, left to right) is taken and every elided element
// reappears, in order and unchanged, at its place.
func VerifC04Args() {
	pat := c04Patterns[nd.Choose("pattern", len(c04Patterns))]
	n := nd.Choose("n", nd.Param("N", 4)+1)
	fset := token.NewFileSet()
	kd := c04Kinds[nd.Param("KIND", 0)]
	pp, err := parse.Parse(fset, "p.patch", []byte(c04PatchSep(pat, kd.open, kd.close, kd.sep)))
	if err != nil {
		panic("harness: " + err.Error())
	}
	prog, err := Compile(fset, pp)
	if err != nil {
		panic("harness: " + err.Error())
	}
	// target list of n elements with symbolic one-letter names
	names := make([]string, n)
	file, err := parser.ParseFile(fset, "a.go", kd.src(n), 0)
	if err != nil {
		panic("harness: " + err.Error())
	}
	call := kd.site(file)
	for i, id := range kd.elems(call) {
		b := nd.Byte("e")
		nd.Assume(b >= 'a')
		nd.Assume(b <= 'c')
		names[i] = string([]byte{b})
		id.Name = names[i]
	}
	ch := prog.Changes[0]
	d, got := ch.matcher.NodeMatcher.Match(reflect.ValueOf(call), data.New(), nodeRegion(call))

	// reference: exists an assignment
	asg := c04Assignments(pat, n)
	valid := make([]bool, len(asg))
	want := false
	for k, a := range asg {
		ok := true
		first := map[byte]int{}
		for pi := 0; pi < len(pat); pi++ {
			c := pat[pi]
			if c == '.' {
				continue
			}
			li := a[pi]
			switch c {
			case 'a', 'b':
				ok = nd.And(ok, names[li][0] == c)
			case 'A':
				ok = nd.And(ok, names[li][0] == 'a')
			default: // metavariable: all occurrences equal
				if f, seen := first[c]; seen {
					ok = nd.And(ok, names[li][0] == names[f][0])
				} else {
					first[c] = li
				}
			}
		}
		valid[k] = ok
		want = nd.Or(want, ok)
	}
	nd.Assert(nd.Iff(got, want), "pattern f("+pat+") on "+fmt.Sprint(n)+" arguments"+c04KindSuffix(kd)+": matched iff some choice of runs makes every explicit element match in order")
	nd.Reach("matched-or-not")
	if !got {
		return
	}
	out, rerr := ch.replacer.NodeReplacer.Replace(d, NewChangelog(), call.Pos())
	nd.Assert(rerr == nil, "Replace failed after a successful match")
	if rerr != nil {
		return
	}
	oc, isNode := out.Interface().(ast.Node)
	nd.Assert(isNode && reflect.TypeOf(oc) == reflect.TypeOf(call), "pattern f("+pat+"): rewritten node is of another kind")
	if !isNode || reflect.TypeOf(oc) != reflect.TypeOf(call) {
		return
	}
	extra := strings.Count(pat, "A")
	nd.Assert(kd.count(oc) == n+extra, "pattern f("+pat+"): the rewritten list lost or gained elements")
	if kd.count(oc) != n+extra {
		return
	}
	outElems := kd.elems(oc)
	// the first valid assignment (shortest runs, left to right) determines the result
	earlier := false
	for k, a := range asg {
		firstValid := nd.And(valid[k], nd.Not(earlier))
		earlier = nd.Or(earlier, valid[k])
		kind := map[int]byte{}
		for pi := 0; pi < len(pat); pi++ {
			if pat[pi] == 'a' || pat[pi] == 'A' {
				kind[a[pi]] = pat[pi]
			}
		}
		// expected output: source elements in order, 'a' -> z, 'A' -> z, w
		var exp []string // "" = symbolic source element j (index in expSrc)
		var expSrc []int
		for j := 0; j < n; j++ {
			switch kind[j] {
			case 'a':
				exp, expSrc = append(exp, "z"), append(expSrc, -1)
			case 'A':
				exp, expSrc = append(exp, "z", "w"), append(expSrc, -1, -1)
			default:
				exp, expSrc = append(exp, ""), append(expSrc, j)
			}
		}
		for j := range exp {
			id := outElems[j]
			if id == nil {
				nd.Assert(false, "rewritten element is not an identifier")
				continue
			}
			if expSrc[j] < 0 {
				nd.Assert(nd.Implies(firstValid, nd.StrEq(id.Name, exp[j])), fmt.Sprintf("pattern f(%s): output element %d must be the rewritten one under the shortest-run choice", pat, j))
			} else {
				nd.Assert(nd.Implies(firstValid, nd.StrEq(id.Name, names[expSrc[j]])), fmt.Sprintf("pattern f(%s): elided/context element must reappear unchanged, once, at its place (output element %d)", pat, j))
			}
		}
	}
	nd.Reach("replaced")
}

func c04KindSuffix(kd c04Kind) string {
	if kd.name == "f(" {
		return ""
	}
	return " [list kind " + kd.name + "]"
}
