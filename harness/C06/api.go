package patch

import (
	"github.com/uber-go/gopatch/internal/zzverif/nd"
)

// VerifC06API: when no change of the patch matches, patch.File.Apply returns
// exactly the bytes it was given (arbitrary bytes: nothing on that path may
// look at or normalise them) and no error.
func VerifC06API() {
	n := nd.Param("CHANGES", 2)
	apiEnv = apiNewEnv(n)
	e := apiEnv
	// a longer body than the shared environment's: room for "\r\n" and friends
	e.src = append([]byte{'O'}, nd.Bytes("orig", nd.Param("SRCBYTES", 4))...)
	for _, m := range e.match {
		nd.Assume(nd.Not(m))
	}
	got, err := apiFile(e).Apply("f.go", e.src)
	nd.Assert(err == nil, "API: error although nothing matched")
	same := len(got) == len(e.src)
	if same {
		for i := range got {
			same = nd.And(same, got[i] == e.src[i])
		}
	}
	nd.Assert(same, "API: the input bytes are not returned unchanged although nothing matched")
	nd.Reach("done")
}

// ReplayC06API: a real file whose bytes are the model's, wrapped so that it
// parses (the bytes sit in a comment), and a patch that does not match it.
func ReplayC06API() {
	n := nd.Param("CHANGES", 2)
	for k := 0; k < n; k++ {
		nd.Bool("match_c" + string(rune('0'+k)))
	}
	nd.Bytes("orig", 2)
	nd.Bytes("new", 2)
	body := nd.Bytes("orig", nd.Param("SRCBYTES", 4))
	for i, b := range body {
		if b == '*' || b == 0 { // keep the block comment well-formed
			body[i] = 'x'
		}
	}
	src := append([]byte("package p\n\n/*"), body...)
	src = append(src, []byte("*/\nvar   odd =  1\n")...)
	pf, err := Parse("p.patch", []byte("@@\n@@\n-nothing()\n+something()\n"))
	if err != nil {
		panic(err)
	}
	got, err := pf.Apply("f.go", src)
	if err != nil {
		nd.Fail("API: error although nothing matched: " + err.Error())
		return
	}
	if string(got) != string(src) {
		nd.Fail("API: the input bytes are not returned unchanged although nothing matched")
	}
}
