package interp

// Freeze monitor: nd.Freeze(x) marks every heap cell reachable from x
// read-only; a later store into one of them is reported.

import "unsafe"

var frozenCells = map[*value]bool{}
var frozenMaps []*hashmap
var anyFrozen bool

func thawAll() {
	for _, m := range frozenMaps {
		m.frozen = false
	}
	frozenMaps = nil
	if len(frozenCells) > 0 {
		frozenCells = map[*value]bool{}
	}
	anyFrozen = false
}

// freeze marks everything reachable from root read-only, not descending into
// the cells listed in except (objects that are legitimately shared and
// mutable, e.g. an internally locked token.FileSet).
func freeze(root value, except ...value) {
	seenSlices := map[unsafe.Pointer]bool{}
	skip := map[*value]bool{}
	var unwrap func(v value)
	unwrap = func(v value) {
		switch v := v.(type) {
		case *value:
			if v != nil {
				skip[v] = true
			}
		case iface:
			unwrap(v.v)
		case []value:
			for _, x := range v {
				unwrap(x)
			}
		}
	}
	for _, e := range except {
		unwrap(e)
	}
	var walk func(v value)
	cell := func(p *value) {
		if p == nil || frozenCells[p] || skip[p] {
			return
		}
		frozenCells[p] = true
		walk(*p)
	}
	walk = func(v value) {
		switch v := v.(type) {
		case *value:
			cell(v)
		case iface:
			walk(v.v)
		case structure:
			for i := range v {
				frozenCells[&v[i]] = true
				walk(v[i])
			}
		case array:
			for i := range v {
				frozenCells[&v[i]] = true
				walk(v[i])
			}
		case []value:
			if len(v) == 0 {
				return
			}
			p := unsafe.Pointer(&v[0])
			if seenSlices[p] {
				return
			}
			seenSlices[p] = true
			for i := range v {
				frozenCells[&v[i]] = true
				walk(v[i])
			}
		case *hashmap:
			if v == nil || v.frozen {
				return
			}
			v.frozen = true
			frozenMaps = append(frozenMaps, v)
			for _, e := range v.live() {
				walk(e.key)
				walk(e.value)
			}
		case *closure:
			if v != nil {
				for _, b := range v.Env {
					walk(b)
				}
			}
		case tuple:
			for _, x := range v {
				walk(x)
			}
		}
	}
	walk(root)
	anyFrozen = len(frozenCells) > 0
}

func checkFrozen(p *value) {
	if anyFrozen && frozenCells[p] {
		panic(frozenWrite{"store into frozen cell"})
	}
}
