package main

import (
	"bytes"
	"fmt"
	"go/ast"
	"go/format"
	"go/parser"
	"go/token"
	"os"
	"path/filepath"
	"strings"
	"testing"

	"golang.org/x/tools/go/ast/astutil"
)

// Finding 2 (C09): an earlier change leaves behind an AST of a shape that the
// parser never produces for the text that gets printed, so a later change in
// the same run does not match code that it does match after a re-parse.

// (a) "(..., error)" -> "(...)" leaves a parenthesised result list with one
// anonymous result; it prints as "string", but the pattern
// "func name(foo string) string" (result list without parentheses) does not
// match it in the same run.
func TestC09Finding2_ResultListParens(t *testing.T) {
	const src = `package a

func name(foo string) (string, error) {
	return "x", nil
}
`
	const p1 = `@@
var name identifier
@@
-func name(foo string) (..., error) {
+func name(foo string) (...) {
- return ..., nil
+ return ...
 }
`
	const p2 = `@@
var name identifier
@@
-func name(foo string) string {
+func name(foo int) string {
   ...
 }
`
	c09CompareF2(t, src, p1, p2)
}

// (b) same, with the result list becoming empty: FuncType.Results is an empty,
// non-nil FieldList, which "func name(foo string) {" does not match.
func TestC09Finding2_EmptyResultList(t *testing.T) {
	const src = `package a

func name(foo string) (err error) {
	return nil
}
`
	const p1 = `@@
var name identifier
@@
-func name(foo string) (..., err error) {
+func name(foo string) (...) {
- return ..., nil
+ return ...
 }
`
	const p2 = `@@
var name identifier
@@
-func name(foo string) {
+func name(foo int) {
   ...
 }
`
	c09CompareF2(t, src, p1, p2)
}

// (c) "G[a, b, ...]" -> "G[a, ...]" leaves an *ast.IndexListExpr with a single
// index; it prints as "G[int]", which parses as *ast.IndexExpr.
func TestC09Finding2_SingleIndexList(t *testing.T) {
	const src = `package a

var x = G[int, string]{}
`
	const p1 = `@@
var a, b expression
@@
-G[a, b, ...]
+G[a, ...]
`
	const p2 = `@@
@@
-G[int]
+H
`
	c09CompareF2(t, src, p1, p2)
}

// (d) the source itself is not in canonical form; the intermediate print of the
// chain canonicalises it ("0XFF" -> "0xFF", "(int)" -> "int"), the combined
// run keeps matching against the original tokens.
func TestC09Finding2_SourceNotCanonical(t *testing.T) {
	const p1 = `@@
@@
-foo(1)
+foo(2)
`
	t.Run("number literal", func(t *testing.T) {
		const src = `package a

const mask = 0XFF

func g() {
	foo(1)
}
`
		const p2 = `@@
@@
-0xFF
+255
`
		c09CompareF2(t, src, p1, p2)
	})
	t.Run("parenthesised result", func(t *testing.T) {
		const src = `package a

func g() (int) {
	foo(1)
	return 1
}
`
		const p2 = `@@
@@
-func g() int {
+func g() int64 {
   ...
 }
`
		c09CompareF2(t, src, p1, p2)
	})
}

func c09CompareF2(t *testing.T, src string, patches ...string) {
	t.Helper()
	comb := c09CombinedF2(t, src, patches...)
	chain := c09ChainF2(t, src, patches...)
	if chain.err != nil {
		t.Fatalf("unexpected: a step of the chain failed: %v", chain.err)
	}
	if comb.err != nil {
		t.Fatalf("combined run failed although every single step succeeds: %v", comb.err)
	}
	if c09NormF2(t, comb.out) != c09NormF2(t, chain.out) {
		t.Errorf("C09 violated: one combined run differs from the chain of single-change runs\n"+
			"--- combined run:\n%s\n--- chain of runs:\n%s", comb.out, chain.out)
	}
}

// ---- helper (self-contained; names are suffixed with F2 so that all
// findingN_test.go files can live side by side in package main) ----

type c09RunF2 struct {
	out string // resulting file contents
	err error  // error returned by mainCmd.Run (first failing step for a chain)
}

func c09WriteF2(t *testing.T, path, content string) {
	t.Helper()
	if err := os.MkdirAll(filepath.Dir(path), 0o755); err != nil {
		t.Fatal(err)
	}
	if err := os.WriteFile(path, []byte(content), 0o644); err != nil {
		t.Fatal(err)
	}
}

func c09GopatchF2(dir string, args ...string) error {
	var stdout, stderr bytes.Buffer
	cmd := mainCmd{
		Stdin:  strings.NewReader(""),
		Stdout: &stdout,
		Stderr: &stderr,
		Getwd:  func() (string, error) { return dir, nil },
	}
	return cmd.Run(args)
}

// c09CombinedF2 runs gopatch ONCE with all the patches, in order.
func c09CombinedF2(t *testing.T, src string, patches ...string) c09RunF2 {
	t.Helper()
	dir := t.TempDir()
	c09WriteF2(t, filepath.Join(dir, "x.go"), src)
	var args []string
	for i, p := range patches {
		pp := filepath.Join(dir, fmt.Sprintf("%d.patch", i))
		c09WriteF2(t, pp, p)
		args = append(args, "-p", pp)
	}
	err := c09GopatchF2(dir, append(args, "x.go")...)
	got, rerr := os.ReadFile(filepath.Join(dir, "x.go"))
	if rerr != nil {
		t.Fatal(rerr)
	}
	return c09RunF2{out: string(got), err: err}
}

// c09ChainF2 runs gopatch once per patch, each run starting from the file
// that the previous run produced. It stops at the first failing step.
func c09ChainF2(t *testing.T, src string, patches ...string) c09RunF2 {
	t.Helper()
	dir := t.TempDir()
	c09WriteF2(t, filepath.Join(dir, "x.go"), src)
	var firstErr error
	for i, p := range patches {
		pp := filepath.Join(dir, fmt.Sprintf("%d.patch", i))
		c09WriteF2(t, pp, p)
		if err := c09GopatchF2(dir, "-p", pp, "x.go"); err != nil {
			firstErr = err
			break
		}
	}
	got, rerr := os.ReadFile(filepath.Join(dir, "x.go"))
	if rerr != nil {
		t.Fatal(rerr)
	}
	return c09RunF2{out: string(got), err: firstErr}
}

// c09NormF2 renders src as a syntax tree with comments dropped and
// parenthesis nodes elided, with all white space removed.
func c09NormF2(t *testing.T, src string) string {
	t.Helper()
	fset := token.NewFileSet()
	f, err := parser.ParseFile(fset, "x.go", src, 0)
	if err != nil {
		t.Fatalf("output is not valid Go: %v\n%s", err, src)
	}
	astutil.Apply(f, nil, func(c *astutil.Cursor) bool {
		if p, ok := c.Node().(*ast.ParenExpr); ok {
			c.Replace(p.X)
		}
		return true
	})
	var b bytes.Buffer
	if err := format.Node(&b, fset, f); err != nil {
		t.Fatal(err)
	}
	return strings.Join(strings.Fields(b.String()), "")
}
