package patch

// Goes in: patch/ (package github.com/uber-go/gopatch/patch).
//
// C08: "either performs the rewrite or reports a diagnostic ... It never panics".
// When every expression on one side of an assignment comes from a "..." that
// matched nothing, the rewritten AssignStmt has an empty Lhs (or Rhs), and
// go/ast's (*AssignStmt).Pos / End index into the empty slice.

import (
	"fmt"
	"testing"
)

func TestFinding3_ElisionLeavesAssignmentWithoutLhs(t *testing.T) {
	// "drop the error result": fine for "v, err := foo()", fatal for "err := foo()".
	const patchSrc = "@@\n@@\n-..., err := foo()\n+... := foo()\n"
	const goSrc = "package a\n\nfunc x() {\n\terr := foo()\n}\n"

	defer func() {
		if p := recover(); p != nil {
			t.Fatalf("panic instead of an error: %v", fmt.Sprint(p))
		}
	}()
	f, err := Parse("p.patch", []byte(patchSrc))
	if err != nil {
		t.Fatalf("patch must parse: %v", err)
	}
	_, _ = f.Apply("a.go", []byte(goSrc))
}

func TestFinding3_ElisionLeavesAssignmentWithoutRhs(t *testing.T) {
	const patchSrc = "@@\n@@\n-v = foo(...)\n+v = ...\n"
	const goSrc = "package a\n\nfunc x() {\n\tv = foo()\n}\n"

	defer func() {
		if p := recover(); p != nil {
			t.Fatalf("panic instead of an error: %v", fmt.Sprint(p))
		}
	}()
	f, err := Parse("p.patch", []byte(patchSrc))
	if err != nil {
		t.Fatalf("patch must parse: %v", err)
	}
	_, _ = f.Apply("a.go", []byte(goSrc))
}
