// symgo: bounded symbolic execution of Go SSA with an SMT solver, driving
// in-package harnesses injected into the repository under test through an
// overlay. See /verif/DESIGN.md.
package main

import (
	"bufio"
	"bytes"
	"crypto/sha256"
	"encoding/json"
	"flag"
	"fmt"
	"io"
	"os"
	"os/exec"
	"path/filepath"
	"regexp"
	"sort"
	"strconv"
	"strings"
	"sync"
	"time"

	"golang.org/x/tools/go/packages"
	"golang.org/x/tools/go/ssa"
	"golang.org/x/tools/go/ssa/ssautil"

	interp "verif/symgo/xinterp"
)

// ---------------------------------------------------------------- config

type TierCfg struct {
	Params   map[string]int64 `json:"params"`
	MaxSteps int              `json:"max_steps"`
	Workers  int              `json:"workers"`
	MaxPaths int              `json:"max_paths"`
	MaxWallS int              `json:"max_wall_s"`
	Skip     bool             `json:"skip"`
}

type Entry struct {
	Name           string             `json:"name"`
	Pkg            string             `json:"pkg"`
	Dir            string             `json:"dir"`
	Func           string             `json:"func"`
	Stubs          map[string]string  `json:"stubs"`
	Reach          []string           `json:"reach"`
	StepsViolation bool               `json:"steps_violation"`
	Replay         string             `json:"replay"` // native function; "-" = not replayable
	ReplayTimeoutS int                `json:"replay_timeout_s"`
	Tiers          map[string]TierCfg `json:"tiers"`
	Doc            string             `json:"doc"`
	Ranged         []string           `json:"ranged"`
	Selectors      []string           `json:"selectors"`
}

type Harness struct {
	PreCmd      []string          `json:"pre_cmd"` // run in /verif before loading (generates harness inputs from the current tree)
	Property    string            `json:"property"`
	Files       map[string]string `json:"files"` // harness file -> path relative to repo
	Entries     []Entry           `json:"entries"`
	Assumptions []string          `json:"assumptions"`
	Outside     []string          `json:"outside_claim"`
}

type KnownFinding struct {
	Property string `json:"property"`
	Entry    string `json:"entry"`
	MsgRe    string `json:"msg_re"`
	ModelRe  string `json:"model_re"`
	Desc     string `json:"desc"`
	Status   string `json:"status"` // "known" | "fixed"
	Commit   string `json:"commit,omitempty"`
	// Also lists further properties whose checks run the same entry (the
	// harness entry is shared), so the same input is the same finding there.
	Also []string `json:"also,omitempty"`
}

var (
	repoDir  = envOr("VERIF_REPO", "/repo")
	verifDir = envOr("VERIF_DIR", "/verif")
)

func envOr(k, d string) string {
	if v := os.Getenv(k); v != "" {
		return v
	}
	return d
}

func goEnv() []string {
	env := os.Environ()
	env = append(env, "GOFLAGS=-mod=mod", "GOPROXY=off", "GOSUMDB=off", "GOTOOLCHAIN=local")
	return env
}

// ---------------------------------------------------------------- loading

func overlayFor(h *Harness, hdir string) (map[string][]byte, map[string]string, error) {
	ov := map[string][]byte{}
	paths := map[string]string{}
	add := func(src, dst string) error {
		b, err := os.ReadFile(src)
		if err != nil {
			return err
		}
		ov[dst] = b
		paths[dst] = src
		return nil
	}
	if err := add(filepath.Join(verifDir, "harness/nd/nd.go"), filepath.Join(repoDir, "internal/zzverif/nd/nd.go")); err != nil {
		return nil, nil, err
	}
	for f, rels := range h.Files {
		for _, rel := range strings.Split(rels, ";") { // one harness source may be injected at several places
			src := filepath.Join(hdir, f)
			if filepath.IsAbs(f) {
				src = f
			}
			// "path#package=name": the same harness source instantiated in another package
			if k := strings.Index(rel, "#package="); k >= 0 {
				pkg := rel[k+len("#package="):]
				rel = rel[:k]
				b, err := os.ReadFile(src)
				if err != nil {
					return nil, nil, err
				}
				if loc := pkgClauseRe.FindIndex(b); loc != nil { // the first one: the file's own clause
					b = append(append(append([]byte{}, b[:loc[0]]...), []byte("package "+pkg)...), b[loc[1]:]...)
				}
				sum := sha256.Sum256(append([]byte(rel), b...))
				dir := filepath.Join(scratchRoot(), "pkgrw")
				os.MkdirAll(dir, 0o755)
				tmp := filepath.Join(dir, fmt.Sprintf("%x.go", sum[:8]))
				if old, err := os.ReadFile(tmp); err != nil || !bytes.Equal(old, b) {
					// several workers may materialise the same file: write-then-rename
					t2 := fmt.Sprintf("%s.%d", tmp, os.Getpid())
					if err := os.WriteFile(t2, b, 0o644); err != nil {
						return nil, nil, err
					}
					if err := os.Rename(t2, tmp); err != nil {
						return nil, nil, err
					}
				}
				src = tmp
			}
			if err := add(src, filepath.Join(repoDir, rel)); err != nil {
				return nil, nil, err
			}
		}
	}
	return ov, paths, nil
}

var pkgClauseRe = regexp.MustCompile(`(?m)^package [A-Za-z_]+`)

func loadProgram(h *Harness, hdir string) (*ssa.Program, []*ssa.Package, map[string]string, error) {
	ov, _, err := overlayFor(h, hdir)
	if err != nil {
		return nil, nil, nil, err
	}
	cfg := &packages.Config{Mode: packages.LoadAllSyntax, Dir: repoDir, Overlay: ov, Env: goEnv()}
	seen := map[string]bool{}
	var patterns []string
	for _, e := range h.Entries {
		if !seen[e.Dir] {
			seen[e.Dir] = true
			patterns = append(patterns, "./"+e.Dir)
		}
	}
	pkgs, err := packages.Load(cfg, patterns...)
	if err != nil {
		return nil, nil, nil, err
	}
	var errs []string
	packages.Visit(pkgs, nil, func(p *packages.Package) {
		for _, e := range p.Errors {
			errs = append(errs, e.Error())
		}
	})
	if len(errs) > 0 {
		return nil, nil, nil, fmt.Errorf("harness does not build against this tree:\n  %s", strings.Join(errs, "\n  "))
	}
	prog, spkgs := ssautil.AllPackages(pkgs, ssa.InstantiateGenerics)
	prog.Build()
	names := map[string]string{}
	for i, p := range pkgs {
		names[p.PkgPath] = p.Name
		_ = i
	}
	return prog, spkgs, names, nil
}

func readHarness(prop string) (*Harness, string, error) {
	hdir := filepath.Join(verifDir, "harness", prop)
	b, err := os.ReadFile(filepath.Join(hdir, "harness.json"))
	if err != nil {
		return nil, "", err
	}
	var h Harness
	if err := json.Unmarshal(b, &h); err != nil {
		return nil, "", fmt.Errorf("harness.json: %v", err)
	}
	return &h, hdir, nil
}

// runPre runs the harness's generator commands (inputs derived from the
// current tree, e.g. the repository's own testdata as Go literals).
func runPre(h *Harness) error {
	for _, c := range h.PreCmd {
		cmd := exec.Command("/bin/sh", "-c", c)
		cmd.Dir = verifDir
		cmd.Env = append(goEnv(), "VERIF_DIR="+verifDir, "VERIF_REPO="+repoDir)
		if out, err := cmd.CombinedOutput(); err != nil {
			return fmt.Errorf("pre_cmd %q failed: %v\n%s", c, err, out)
		}
	}
	return nil
}

// ---------------------------------------------------------------- worker process handle

type workerProc struct {
	cmd *exec.Cmd
	in  *bufio.Writer
	out *bufio.Reader
	id  int
}

func startWorker(prop string, id int) (*workerProc, error) {
	self, _ := os.Executable()
	cmd := exec.Command(self, "worker", "-prop", prop)
	cmd.Env = append(goEnv(), "GOMAXPROCS=2")
	cmd.Stderr = os.Stderr
	in, _ := cmd.StdinPipe()
	out, _ := cmd.StdoutPipe()
	if err := cmd.Start(); err != nil {
		return nil, err
	}
	w := &workerProc{cmd: cmd, in: bufio.NewWriterSize(in, 1<<20), out: bufio.NewReaderSize(out, 1<<20), id: id}
	r, err := w.recv()
	if err != nil {
		return nil, fmt.Errorf("worker %d: %v", id, err)
	}
	if r.Error != "" {
		return nil, fmt.Errorf("worker %d: %s", id, r.Error)
	}
	return w, nil
}

func (w *workerProc) send(req interp.Request) error {
	b, _ := json.Marshal(req)
	w.in.Write(b)
	w.in.WriteByte('\n')
	return w.in.Flush()
}

func (w *workerProc) recv() (*interp.Reply, error) {
	line, err := w.out.ReadBytes('\n')
	if err != nil {
		return nil, fmt.Errorf("worker died: %v", err)
	}
	var r interp.Reply
	if err := json.Unmarshal(line, &r); err != nil {
		return nil, fmt.Errorf("bad reply: %v: %.200s", err, line)
	}
	return &r, nil
}

func (w *workerProc) call(req interp.Request) (*interp.Reply, error) {
	if err := w.send(req); err != nil {
		return nil, err
	}
	return w.recv()
}

func (w *workerProc) stop() {
	w.send(interp.Request{Op: "quit"})
	done := make(chan struct{})
	go func() { w.cmd.Wait(); close(done) }()
	select {
	case <-done:
	case <-time.After(2 * time.Second):
		w.cmd.Process.Kill()
	}
}

// ---------------------------------------------------------------- exploration

type EntryResult struct {
	Entry        *Entry
	Paths        int
	Done         int
	Assume       int
	Infeasible   int
	Inconclusive map[string]int
	IncExample   map[string]string
	StepsPaths   int
	PanicPaths   int
	Violations   []interp.Violation
	Reach        map[string]int
	Decisions    int
	SymDecisions int
	Obligations  int
	NontrivDone  int
	MaxVars      int
	Samples      []map[string]any
	Truncated    string
	WallS        float64
	PassModels   [][]interp.SymVar
}

func explore(ws []*workerProc, e *Entry, tc TierCfg, classify func(interp.Violation) string) (*EntryResult, error) {
	res := &EntryResult{Entry: e, Inconclusive: map[string]int{}, IncExample: map[string]string{}, Reach: map[string]int{}}
	t0 := time.Now()
	for _, w := range ws {
		r, err := w.call(interp.Request{Op: "entry", Pkg: e.Pkg, Func: e.Func, Stubs: e.Stubs, Params: tc.Params, MaxSteps: tc.MaxSteps})
		if err != nil {
			return nil, err
		}
		if r.Error != "" {
			return nil, fmt.Errorf("entry %s: %s", e.Name, r.Error)
		}
	}
	var mu sync.Mutex
	cond := sync.NewCond(&mu)
	work := [][]interp.Decision{nil}
	busy := 0
	stop := false
	var firstErr error
	maxPaths := tc.MaxPaths
	if maxPaths == 0 {
		maxPaths = 2_000_000
	}
	deadline := time.Time{}
	if tc.MaxWallS > 0 {
		deadline = t0.Add(time.Duration(tc.MaxWallS) * time.Second)
	}
	violSeen := map[string]int{}
	var wg sync.WaitGroup
	for _, w := range ws {
		wg.Add(1)
		go func(w *workerProc) {
			defer wg.Done()
			for {
				mu.Lock()
				for len(work) == 0 && busy > 0 && !stop {
					cond.Wait()
				}
				if stop || (len(work) == 0 && busy == 0) {
					mu.Unlock()
					cond.Broadcast()
					return
				}
				item := work[len(work)-1]
				work = work[:len(work)-1]
				busy++
				keep := res.Paths < 40 || res.Paths%997 == 0
				res.Paths++
				mu.Unlock()

				r, err := w.call(interp.Request{Op: "run", Prefix: item, KeepPC: keep})
				mu.Lock()
				busy--
				if err != nil {
					if firstErr == nil {
						firstErr = err
					}
					stop = true
					mu.Unlock()
					cond.Broadcast()
					return
				}
				pr := r.Result
				if pr == nil {
					pr = &interp.PathResult{Status: "inconclusive", Why: "worker error: " + r.Error}
				}
				work = append(work, pr.New...)
				res.Decisions += pr.Decisions
				res.SymDecisions += pr.SymDecisions
				res.Obligations += pr.Obligations
				if pr.NVars > res.MaxVars {
					res.MaxVars = pr.NVars
				}
				switch pr.Status {
				case "done":
					res.Done++
					if pr.SymDecisions > 0 || pr.NVars > 0 {
						res.NontrivDone++
					}
					for _, t := range pr.Reach {
						res.Reach[t]++
					}
					if keep && len(res.Samples) < 6 {
						res.Samples = append(res.Samples, map[string]any{"entry": e.Name, "status": pr.Status, "path_condition": trimPC(pr.PC), "model": modelMap(pr.Model), "decisions": pr.Decisions, "obligations": pr.Obligations})
					}
					if keep && pr.Model != nil && len(pr.Violations) == 0 && len(res.PassModels) < 8 {
						res.PassModels = append(res.PassModels, pr.Model)
					}
				case "assume":
					res.Assume++
				case "infeasible":
					res.Infeasible++
				case "inconclusive":
					res.Inconclusive[pr.Why]++
					if _, seen := res.IncExample[pr.Why]; !seen {
						res.IncExample[pr.Why] = "at " + pr.Where + " model=" + modelString(pr.Model)
					}
				case "steps":
					res.StepsPaths++
				case "panic":
					res.PanicPaths++
				}
				for _, v := range pr.Violations {
					kd := classify(v)
					k := v.Kind + "|" + v.Msg + "|" + kd
					violSeen[k]++
					lim := 3
					if v.Kind == "steps" || kd != "" {
						lim = 1
					}
					if violSeen[k] <= lim {
						res.Violations = append(res.Violations, v)
						continue
					}
					// prefer the simplest witnesses of a class: fewest fault/flag bits set
					worst, wi := -1, -1
					for i, o := range res.Violations {
						if o.Kind+"|"+o.Msg+"|"+classify(o) == k {
							if c := oneBits(o.Model); c > worst {
								worst, wi = c, i
							}
						}
					}
					if wi >= 0 && oneBits(v.Model) < worst {
						res.Violations[wi] = v
					}
				}
				if res.Paths >= maxPaths && len(work) > 0 {
					res.Truncated = fmt.Sprintf("path budget %d reached with %d prefixes unexplored", maxPaths, len(work))
					stop = true
				}
				if !deadline.IsZero() && time.Now().After(deadline) && len(work) > 0 {
					res.Truncated = fmt.Sprintf("wall budget %ds reached with %d prefixes unexplored", tc.MaxWallS, len(work))
					stop = true
				}
				mu.Unlock()
				cond.Broadcast()
			}
		}(w)
	}
	wg.Wait()
	res.WallS = time.Since(t0).Seconds()
	return res, firstErr
}

func oneBits(m []interp.SymVar) int {
	n := 0
	for _, v := range m {
		if v.Width == 1 && v.Value != 0 {
			n++
		}
	}
	return n
}

func trimPC(pc []string) []string {
	if len(pc) > 12 {
		pc = append(append([]string{}, pc[:12]...), fmt.Sprintf("… (%d more)", len(pc)-12))
	}
	out := make([]string, len(pc))
	for i, c := range pc {
		if len(c) > 300 {
			c = c[:300] + "…"
		}
		out[i] = c
	}
	return out
}

func modelMap(m []interp.SymVar) []string {
	var out []string
	for _, v := range m {
		out = append(out, fmt.Sprintf("%s=%d", v.Name, v.Value))
	}
	return out
}

func modelString(m []interp.SymVar) string { return strings.Join(modelMap(m), ",") }

// ---------------------------------------------------------------- native replay

type replayCase struct {
	Func  string          `json:"func"`
	Model []interp.SymVar `json:"model"`
}

type replayOutcome struct {
	Status string // ok | violation | timeout | error
	Msg    string
	Output string
}

// buildReplayBinary compiles, for one package directory, a test binary that
// can run any harness function natively on a replay vector.
func buildReplayBinary(h *Harness, hdir string, dir, pkgName string, funcs []string, scratch string) (string, error) {
	_, paths, err := overlayFor(h, hdir)
	if err != nil {
		return "", err
	}
	var b strings.Builder
	fmt.Fprintf(&b, "package %s\n\nimport (\n\t\"testing\"\n\tnd \"%s\"\n)\n\n", pkgName, interp.NdPkg)
	fmt.Fprintf(&b, "func TestVerifReplay(t *testing.T) {\n\tnd.RunReplay(map[string]func(){\n")
	for _, f := range funcs {
		fmt.Fprintf(&b, "\t\t%q: %s,\n", f, f)
	}
	fmt.Fprintf(&b, "\t})\n}\n")
	tf := filepath.Join(scratch, "replay_"+strings.ReplaceAll(dir, "/", "_")+"_test.go")
	if err := os.WriteFile(tf, []byte(b.String()), 0o644); err != nil {
		return "", err
	}
	paths[filepath.Join(repoDir, dir, "zz_verif_replay_test.go")] = tf
	ovf := filepath.Join(scratch, "overlay_"+strings.ReplaceAll(dir, "/", "_")+".json")
	ob, _ := json.Marshal(map[string]any{"Replace": paths})
	os.WriteFile(ovf, ob, 0o644)
	bin := filepath.Join(scratch, "replay_"+strings.ReplaceAll(dir, "/", "_")+".test")
	cmd := exec.Command("go", "test", "-c", "-vet=off", "-overlay", ovf, "-o", bin, "./"+dir)
	cmd.Dir = repoDir
	cmd.Env = append(goEnv(), "GOCACHE="+filepath.Join(scratchRoot(), "gocache"))
	out, err := cmd.CombinedOutput()
	if err != nil {
		return "", fmt.Errorf("building native replay binary for %s failed: %v\n%s", dir, err, out)
	}
	return bin, nil
}

func scratchRoot() string {
	d := os.Getenv("TMPDIR")
	if d == "" {
		d = "/tmp"
	}
	r := filepath.Join(d, "verif-symgo")
	os.MkdirAll(r, 0o755)
	return r
}

func runReplay(bin, dir string, c replayCase, timeoutS int, scratch string, params map[string]int64) replayOutcome {
	cf := filepath.Join(scratch, fmt.Sprintf("case_%d.json", time.Now().UnixNano()))
	b, _ := json.Marshal(c)
	os.WriteFile(cf, b, 0o644)
	defer os.Remove(cf)
	if timeoutS == 0 {
		timeoutS = 20
	}
	cmd := exec.Command(bin, "-test.run", "^TestVerifReplay$", "-test.v", "-test.timeout", fmt.Sprintf("%ds", timeoutS))
	cmd.Dir = filepath.Join(repoDir, dir)
	// realisers create their real files under a directory the driver removes
	// afterwards (a realiser that dropped privileges may be unable to)
	rtmp := filepath.Join(scratch, "rtmp")
	os.MkdirAll(rtmp, 0o777)
	os.Chmod(rtmp, 0o777)
	os.Chmod(scratch, 0o755)
	cmd.Env = append(os.Environ(), "VERIF_REPLAY="+cf, "TMPDIR="+rtmp)
	for k, v := range params {
		cmd.Env = append(cmd.Env, fmt.Sprintf("VERIF_PARAM_%s=%d", k, v))
	}
	done := make(chan struct{})
	var out []byte
	var err error
	go func() { out, err = cmd.CombinedOutput(); close(done) }()
	select {
	case <-done:
	case <-time.After(time.Duration(timeoutS+10) * time.Second):
		cmd.Process.Kill()
		<-done
		return replayOutcome{Status: "timeout", Output: string(out)}
	}
	so := string(out)
	if strings.Contains(so, "REPLAY-ERROR:") {
		return replayOutcome{Status: "unreplayable", Output: tail(so)}
	}
	if strings.Contains(so, "test timed out") {
		return replayOutcome{Status: "timeout", Output: tail(so)}
	}
	for _, l := range strings.Split(so, "\n") {
		if strings.HasPrefix(l, "REPLAY-RESULT: ") {
			rest := strings.TrimPrefix(l, "REPLAY-RESULT: ")
			if rest == "ok" {
				return replayOutcome{Status: "ok", Output: tail(so)}
			}
			return replayOutcome{Status: "violation", Msg: rest, Output: tail(so)}
		}
	}
	_ = err
	return replayOutcome{Status: "error", Output: tail(so)}
}

func tail(s string) string {
	if len(s) > 1500 {
		return "…" + s[len(s)-1500:]
	}
	return s
}

// ---------------------------------------------------------------- main

func main() {
	if len(os.Args) < 2 {
		fmt.Fprintln(os.Stderr, "usage: symgo run|worker|replay ...")
		os.Exit(2)
	}
	switch os.Args[1] {
	case "worker":
		workerMain(os.Args[2:])
	case "run":
		os.Exit(runMain(os.Args[2:]))
	case "replay":
		os.Exit(replayMain(os.Args[2:]))
	default:
		fmt.Fprintln(os.Stderr, "unknown subcommand")
		os.Exit(2)
	}
}

func workerMain(args []string) {
	fs := flag.NewFlagSet("worker", flag.ExitOnError)
	prop := fs.String("prop", "", "property id")
	fs.Parse(args)
	h, hdir, err := readHarness(*prop)
	enc := json.NewEncoder(os.Stdout)
	if err != nil {
		enc.Encode(interp.Reply{Error: err.Error()})
		return
	}
	prog, _, _, err := loadProgram(h, hdir)
	if err != nil {
		enc.Encode(interp.Reply{Error: err.Error()})
		return
	}
	var roots []*ssa.Package
	seen := map[string]bool{}
	for _, e := range h.Entries {
		if seen[e.Pkg] {
			continue
		}
		seen[e.Pkg] = true
		for _, p := range prog.AllPackages() {
			if p.Pkg.Path() == e.Pkg {
				roots = append(roots, p)
			}
		}
	}
	if len(roots) == 0 {
		enc.Encode(interp.Reply{Error: "no root packages found"})
		return
	}
	interp.Serve(prog, roots, os.Stdin, os.Stdout)
}

func loadKnown() []KnownFinding {
	var out []KnownFinding
	f, err := os.Open(filepath.Join(verifDir, "known_findings.jsonl"))
	if err != nil {
		return nil
	}
	defer f.Close()
	sc := bufio.NewScanner(f)
	sc.Buffer(make([]byte, 1<<20), 1<<20)
	for sc.Scan() {
		l := strings.TrimSpace(sc.Text())
		if l == "" || strings.HasPrefix(l, "#") {
			continue
		}
		var k KnownFinding
		if json.Unmarshal([]byte(l), &k) == nil {
			out = append(out, k)
		}
	}
	return out
}

func matchKnown(known []KnownFinding, prop, entry string, v interp.Violation) *KnownFinding {
	for i := range known {
		k := &known[i]
		applies := k.Property == prop
		for _, p := range k.Also {
			applies = applies || p == prop
		}
		if !applies || k.Status == "fixed" {
			continue
		}
		if k.Entry != "" && k.Entry != entry {
			continue
		}
		if k.MsgRe != "" {
			if ok, _ := regexp.MatchString(k.MsgRe, v.Kind+": "+v.Msg); !ok {
				continue
			}
		}
		if k.ModelRe != "" {
			if ok, _ := regexp.MatchString(k.ModelRe, modelString(v.Model)); !ok {
				continue
			}
		}
		return k
	}
	return nil
}

func runMain(args []string) int {
	fs := flag.NewFlagSet("run", flag.ExitOnError)
	prop := fs.String("prop", "", "property id")
	tier := fs.String("tier", "quick", "quick|thorough")
	only := fs.String("entry", "", "run only this entry")
	noReplay := fs.Bool("no-replay", false, "skip native replay (debugging)")
	workersFlag := fs.Int("workers", 0, "override worker count")
	fs.Parse(args)
	t0 := time.Now()
	seed, _ := strconv.Atoi(os.Getenv("VERIF_SEED"))
	h, hdir, err := readHarness(*prop)
	if err != nil {
		fmt.Println("ERROR:", err)
		return 2
	}
	if err := runPre(h); err != nil {
		fmt.Println("ERROR:", err)
		return 2
	}
	known := loadKnown()

	// how many workers do we need?
	maxW := 1
	for _, e := range h.Entries {
		if tc, ok := e.Tiers[*tier]; ok && !tc.Skip && tc.Workers > maxW {
			maxW = tc.Workers
		}
	}
	if *workersFlag > 0 {
		maxW = *workersFlag
	}
	if maxW > 16 {
		maxW = 16
	}
	var ws []*workerProc
	{
		var mu sync.Mutex
		var wg sync.WaitGroup
		var werr error
		for k := 0; k < maxW; k++ {
			wg.Add(1)
			go func(k int) {
				defer wg.Done()
				w, err := startWorker(*prop, k)
				mu.Lock()
				defer mu.Unlock()
				if err != nil {
					if werr == nil {
						werr = err
					}
					return
				}
				ws = append(ws, w)
			}(k)
		}
		wg.Wait()
		if werr != nil {
			fmt.Println("ERROR: cannot start workers:", werr)
			for _, w := range ws {
				w.stop()
			}
			return 2
		}
	}
	defer func() {
		for _, w := range ws {
			w.stop()
		}
	}()
	loadS := time.Since(t0).Seconds()

	var results []*EntryResult
	infra := false
	for i := range h.Entries {
		e := &h.Entries[i]
		if *only != "" && e.Name != *only {
			continue
		}
		tc, ok := e.Tiers[*tier]
		if !ok || tc.Skip {
			continue
		}
		n := tc.Workers
		if *workersFlag > 0 {
			n = *workersFlag
		}
		if n <= 0 {
			n = 1
		}
		if n > len(ws) {
			n = len(ws)
		}
		r, err := explore(ws[:n], e, tc, func(v interp.Violation) string {
			if k := matchKnown(known, *prop, e.Name, v); k != nil {
				return k.Desc
			}
			return ""
		})
		if err != nil {
			fmt.Printf("ERROR: entry %s: %v\n", e.Name, err)
			infra = true
			break
		}
		results = append(results, r)
		inc := 0
		for _, n := range r.Inconclusive {
			inc += n
		}
		fmt.Printf("RESULT property=%s entry=%s paths=%d done=%d assume-pruned=%d inconclusive=%d steps-exceeded=%d panics=%d obligations=%d violations(distinct-sampled)=%d wall=%.1fs\n",
			*prop, e.Name, r.Paths, r.Done, r.Assume, inc, r.StepsPaths, r.PanicPaths, r.Obligations, len(r.Violations), r.WallS)
		for why, n := range r.Inconclusive {
			fmt.Printf("  INCONCLUSIVE x%d: %s\n    first: %s\n", n, why, r.IncExample[why])
		}
		if r.Truncated != "" {
			fmt.Printf("  TRUNCATED: %s\n", r.Truncated)
		}
	}

	// collect stats from workers
	agg := interp.Stats{Coverage: map[string][2]int{}, Intrinsics: map[string]int{}}
	for _, w := range ws {
		r, err := w.call(interp.Request{Op: "stats"})
		if err != nil || r.Stats == nil {
			continue
		}
		for k, v := range r.Stats.Coverage {
			c := agg.Coverage[k]
			agg.Coverage[k] = [2]int{c[0] + v[0], v[1]}
		}
		for k, v := range r.Stats.Intrinsics {
			agg.Intrinsics[k] += v
		}
		agg.Queries += r.Stats.Queries
		agg.Sat += r.Stats.Sat
		agg.Unsat += r.Stats.Unsat
		agg.Unknown += r.Stats.Unknown
		agg.Errors += r.Stats.Errors
		agg.SolverS += r.Stats.SolverS
	}

	// ---- triage violations: native replay, known findings
	scratch, _ := os.MkdirTemp(scratchRoot(), "run-")
	defer os.RemoveAll(scratch)
	bins := map[string]string{}
	pkgNames := map[string]string{}
	getBin := func(e *Entry) (string, error) {
		if b, ok := bins[e.Dir]; ok {
			return b, nil
		}
		if len(pkgNames) == 0 {
			cfg := &packages.Config{Mode: packages.NeedName, Dir: repoDir, Env: goEnv()}
			var pats []string
			for _, e := range h.Entries {
				pats = append(pats, "./"+e.Dir)
			}
			ps, err := packages.Load(cfg, pats...)
			if err != nil {
				return "", err
			}
			for _, p := range ps {
				pkgNames[p.PkgPath] = p.Name
			}
		}
		var funcs []string
		seen := map[string]bool{}
		for _, x := range h.Entries {
			if x.Dir != e.Dir {
				continue
			}
			for _, f := range []string{x.Func, x.Replay} {
				if f != "" && f != "-" && !seen[f] {
					seen[f] = true
					funcs = append(funcs, f)
				}
			}
		}
		b, err := buildReplayBinary(h, hdir, e.Dir, pkgNames[e.Pkg], funcs, scratch)
		if err != nil {
			return "", err
		}
		bins[e.Dir] = b
		return b, nil
	}

	exit := 0
	nViol, nKnown, nDisagree, nUnreplayable, nValidated := 0, 0, 0, 0, 0
	var violSamples []map[string]any
	knownPrinted := map[string]bool{}
	os.MkdirAll(filepath.Join(verifDir, "replays", *prop), 0o755)
	for _, r := range results {
		e := r.Entry
		for _, v := range r.Violations {
			if v.Kind == "steps" && !e.StepsViolation {
				continue // counted as bound-exceeded below
			}
			rf := e.Replay
			if rf == "" {
				rf = e.Func
			}
			var oc replayOutcome
			if *noReplay {
				oc = replayOutcome{Status: "violation", Msg: "(replay skipped)"}
			} else if rf == "-" {
				oc = replayOutcome{Status: "unreplayable"}
			} else {
				bin, err := getBin(e)
				if err != nil {
					fmt.Println("ERROR:", err)
					infra = true
					continue
				}
				oc = runReplay(bin, e.Dir, replayCase{Func: rf, Model: v.Model}, e.ReplayTimeoutS, scratch, e.Tiers[*tier].Params)
			}
			reproduced := oc.Status == "violation" || (oc.Status == "timeout" && v.Kind == "steps")
			switch {
			case oc.Status == "unreplayable":
				nUnreplayable++
				fmt.Printf("UNREPLAYABLE property=%s entry=%s %s: %s model=%s (the scenario cannot be produced natively; not reported as a violation)\n%s\n", *prop, e.Name, v.Kind, v.Msg, modelString(v.Model), oc.Output)
				infra = true
			case !reproduced:
				nDisagree++
				fmt.Printf("ENGINE-DISAGREEMENT property=%s entry=%s %s: %s model=%s native=%s\n%s\n", *prop, e.Name, v.Kind, v.Msg, modelString(v.Model), oc.Status, oc.Output)
				infra = true
			default:
				nValidated++
				if k := matchKnown(known, *prop, e.Name, v); k != nil {
					nKnown++
					if !knownPrinted[k.Desc] {
						knownPrinted[k.Desc] = true
						fmt.Printf("KNOWN-FINDING: property=%s %s\n", *prop, k.Desc)
					}
					continue
				}
				nViol++
				rec := map[string]any{"property": *prop, "entry": e.Name, "pkg": e.Pkg, "dir": e.Dir, "func": rf, "kind": v.Kind, "msg": v.Msg,
					"model": v.Model, "native": oc.Msg, "tier": *tier, "params": e.Tiers[*tier].Params,
					"replay_cmd": fmt.Sprintf("./check %s --replay <this file>", *prop)}
				jb, _ := json.MarshalIndent(rec, "", " ")
				sum := sha256.Sum256(jb)
				path := filepath.Join(verifDir, "replays", *prop, fmt.Sprintf("%s-%x.json", e.Name, sum[:6]))
				os.WriteFile(path, jb, 0o644)
				fmt.Printf("VIOLATION property=%s replay=%s\n", *prop, path)
				fmt.Printf("  entry=%s %s: %s\n  model: %s\n  native: %s\n", e.Name, v.Kind, v.Msg, modelString(v.Model), oc.Msg)
				if len(violSamples) < 5 {
					violSamples = append(violSamples, rec)
				}
				exit = 1
			}
		}
	}

	// ---- validate sampled passing paths natively (same harness, model values)
	passValidated, passDisagree := 0, 0
	if !*noReplay {
		for _, r := range results {
			e := r.Entry
			rf := e.Func
			if e.Replay == "-" {
				continue
			}
			if len(e.Stubs) > 0 {
				// stubbed harnesses cannot run natively as they are: their
				// scenario realiser runs the real code on the model instead
				if e.Replay == "" {
					continue
				}
				rf = e.Replay
			}
			for k, m := range r.PassModels {
				if k >= 3 {
					break
				}
				bin, err := getBin(e)
				if err != nil {
					fmt.Println("ERROR:", err)
					infra = true
					break
				}
				oc := runReplay(bin, e.Dir, replayCase{Func: rf, Model: m}, e.ReplayTimeoutS, scratch, e.Tiers[*tier].Params)
				if oc.Status == "ok" {
					passValidated++
				} else if oc.Status == "unreplayable" {
					continue
				} else {
					passDisagree++
					fmt.Printf("ENGINE-DISAGREEMENT property=%s entry=%s passing path fails natively: %s %s model=%s\n%s\n", *prop, e.Name, oc.Status, oc.Msg, modelString(m), oc.Output)
					infra = true
				}
			}
		}
	}

	// ---- vacuity and bound checks
	totalPaths, totalDone, totalDec, totalObl, nontriv, incTotal, boundEx := 0, 0, 0, 0, 0, 0, 0
	var samples []map[string]any
	var entrySummaries []map[string]any
	for _, r := range results {
		e := r.Entry
		totalPaths += r.Paths
		totalDone += r.Done
		totalDec += r.Decisions
		totalObl += r.Obligations
		nontriv += r.NontrivDone
		inc := 0
		for _, n := range r.Inconclusive {
			inc += n
		}
		incTotal += inc
		if !e.StepsViolation {
			boundEx += r.StepsPaths
		}
		for _, tag := range e.Reach {
			if r.Reach[tag] == 0 {
				fmt.Printf("VACUOUS property=%s entry=%s: reachability witness %q never reached\n", *prop, e.Name, tag)
				infra = true
			}
		}
		if r.Done == 0 && len(r.Violations) == 0 {
			fmt.Printf("VACUOUS property=%s entry=%s: no path completed\n", *prop, e.Name)
			infra = true
		}
		if inc > 0 {
			fmt.Printf("INCONCLUSIVE property=%s entry=%s: %d paths could not be decided (see above); they are NOT counted as holding\n", *prop, e.Name, inc)
			infra = true
		}
		if !e.StepsViolation && r.StepsPaths > 0 {
			fmt.Printf("BOUND-EXCEEDED property=%s entry=%s: %d paths hit the step budget\n", *prop, e.Name, r.StepsPaths)
			infra = true
		}
		if r.Truncated != "" {
			fmt.Printf("BOUND-EXCEEDED property=%s entry=%s: %s\n", *prop, e.Name, r.Truncated)
			infra = true
		}
		samples = append(samples, r.Samples...)
		tc := e.Tiers[*tier]
		entrySummaries = append(entrySummaries, map[string]any{
			"entry": e.Name, "func": e.Pkg + "." + e.Func, "doc": e.Doc, "params": tc.Params, "max_steps": tc.MaxSteps,
			"paths": r.Paths, "completed": r.Done, "assume_pruned": r.Assume, "inconclusive": inc, "steps_exceeded": r.StepsPaths,
			"panicking_paths": r.PanicPaths, "obligations": r.Obligations, "symbolic_decisions": r.SymDecisions, "max_symbolic_inputs": r.MaxVars,
			"reach": r.Reach, "stubs": e.Stubs, "ranged": e.Ranged, "selectors": e.Selectors, "wall_s": round1(r.WallS), "truncated": r.Truncated,
		})
	}
	samples = append(violSamples, samples...)
	if len(samples) > 12 {
		samples = samples[:12]
	}
	if len(samples) == 0 {
		samples = []map[string]any{{"note": "no path sample recorded"}}
	}

	// ---- evidence
	type fnc struct {
		Name   string `json:"name"`
		Calls  int    `json:"calls"`
		Instrs int    `json:"instrs"`
	}
	var repoFns, stdFns, depFns []fnc
	for k, v := range agg.Coverage {
		f := fnc{k, v[0], v[1]}
		switch {
		case strings.Contains(k, "github.com/uber-go/gopatch"):
			repoFns = append(repoFns, f)
		case strings.Contains(k, ".") && (strings.Contains(k, "golang.org/") || strings.Contains(k, "github.com/") || strings.Contains(k, "go.uber.org/")):
			depFns = append(depFns, f)
		default:
			stdFns = append(stdFns, f)
		}
	}
	for _, l := range [][]fnc{repoFns, stdFns, depFns} {
		sort.Slice(l, func(i, j int) bool { return l[i].Name < l[j].Name })
	}
	stdNames := make([]string, 0, len(stdFns))
	for _, f := range stdFns {
		stdNames = append(stdNames, f.Name)
	}
	if len(stdNames) > 60 {
		stdNames = append(stdNames[:60], fmt.Sprintf("… %d more", len(stdNames)-60))
	}
	depNames := make([]string, 0, len(depFns))
	for _, f := range depFns {
		depNames = append(depNames, f.Name)
	}
	var intr []string
	for k, n := range agg.Intrinsics {
		intr = append(intr, fmt.Sprintf("%s x%d", k, n))
	}
	sort.Strings(intr)
	assumptions := append([]string{
		"go/ssa lowering of /repo's current working tree (x/tools v0.29.0) and the symgo interpreter/intrinsics are trusted; every reported violation is replayed natively before it is printed",
		"z3 5.1.0 verdicts (unknown/error => path kept and run flagged inconclusive)",
		"globals of non-stdlib packages are re-initialised per path; stdlib package state is initialised once and assumed not to be mutated by the code under test",
	}, h.Assumptions...)
	ev := map[string]any{
		"property_id": *prop,
		"tier":        *tier,
		"seed":        seed,
		"level":       "model_checking",
		"wall_s":      round1(time.Since(t0).Seconds()),
		"violations":  nViol,
		"assumptions": assumptions,
		"coverage": map[string]any{
			"states":                        max(totalDone, 0),
			"transitions":                   totalDec,
			"traces_validated_against_impl": nValidated + passValidated,
			"samples":                       samples,
			"evaluations":                   totalObl,
			"distinct_nontrivial":           nontriv,
			"rule":                          "states = feasible paths of the harness executed to completion by symbolic execution of the SSA of /repo's working tree (each path stands for all input values satisfying its path condition); transitions = branch/concretisation decisions taken; evaluations = assertion obligations (PC ∧ ¬assert) sent to the solver; distinct_nontrivial = completed paths with at least one symbolic input, distinct by decision prefix; traces_validated = solver models (violating and sampled passing) re-run natively against the compiled code",
			"exhaustive":                    !infra && exit == 0,
			"explanation":                   "bounded symbolic execution; bounds per entry in 'entries'; nothing outside those bounds is claimed",
			"entries":                       entrySummaries,
			"functions_encoded_repo":        repoFns,
			"functions_encoded_stdlib":      stdNames,
			"functions_encoded_deps":        depNames,
			"intrinsics_hit":                intr,
			"queries":                       map[string]any{"total": agg.Queries, "sat": agg.Sat, "unsat": agg.Unsat, "unknown": agg.Unknown, "solver_errors": agg.Errors},
			"solver_s":                      round1(agg.SolverS),
			"solver":                        "z3 5.1.0 (z3-new -in, incremental, no set-logic); transcripts cross-checked with z3 4.8.12 and cvc5 by ./check --solver-diff",
			"load_s":                        round1(loadS),
			"workers":                       len(ws),
			"paths_total":                   totalPaths,
			"inconclusive_paths":            incTotal,
			"bound_exceeded_paths":          boundEx,
			"known_findings_reproduced":     nKnown,
			"engine_disagreements":          nDisagree + passDisagree,
			"unreplayable":                  nUnreplayable,
			"outside_claim":                 h.Outside,
		},
	}
	os.MkdirAll(filepath.Join(verifDir, "evidence"), 0o755)
	eb, _ := json.MarshalIndent(ev, "", " ")
	if os.Getenv("SYMGO_NO_EVIDENCE") != "" {
		// diagnostic runs (solver diff) must not overwrite the evidence of the real check
	} else if err := os.WriteFile(filepath.Join(verifDir, "evidence", *prop+".json"), eb, 0o644); err != nil {
		fmt.Println("ERROR: cannot write evidence:", err)
		infra = true
	}
	fmt.Printf("SUMMARY property=%s tier=%s paths=%d completed=%d obligations=%d queries=%d solver=%.1fs violations=%d known=%d wall=%.1fs\n",
		*prop, *tier, totalPaths, totalDone, totalObl, agg.Queries, agg.SolverS, nViol, nKnown, time.Since(t0).Seconds())
	if exit == 1 {
		return 1
	}
	if infra {
		return 2
	}
	return 0
}

func round1(f float64) float64 { return float64(int(f*10+0.5)) / 10 }

func replayMain(args []string) int {
	fs := flag.NewFlagSet("replay", flag.ExitOnError)
	prop := fs.String("prop", "", "property id")
	fs.Parse(args)
	if fs.NArg() != 1 {
		fmt.Println("usage: symgo replay -prop Cxx <file>")
		return 2
	}
	b, err := os.ReadFile(fs.Arg(0))
	if err != nil {
		fmt.Println("ERROR:", err)
		return 2
	}
	var rec struct {
		Entry  string           `json:"entry"`
		Func   string           `json:"func"`
		Kind   string           `json:"kind"`
		Msg    string           `json:"msg"`
		Model  []interp.SymVar  `json:"model"`
		Params map[string]int64 `json:"params"`
	}
	if err := json.Unmarshal(b, &rec); err != nil {
		fmt.Println("ERROR:", err)
		return 2
	}
	h, hdir, err := readHarness(*prop)
	if err != nil {
		fmt.Println("ERROR:", err)
		return 2
	}
	if err := runPre(h); err != nil {
		fmt.Println("ERROR:", err)
		return 2
	}
	var e *Entry
	for i := range h.Entries {
		if h.Entries[i].Name == rec.Entry {
			e = &h.Entries[i]
		}
	}
	if e == nil {
		fmt.Println("ERROR: unknown entry", rec.Entry)
		return 2
	}
	cfg := &packages.Config{Mode: packages.NeedName, Dir: repoDir, Env: goEnv()}
	ps, err := packages.Load(cfg, "./"+e.Dir)
	if err != nil || len(ps) == 0 {
		fmt.Println("ERROR:", err)
		return 2
	}
	scratch, _ := os.MkdirTemp(scratchRoot(), "replay-")
	defer os.RemoveAll(scratch)
	bin, err := buildReplayBinary(h, hdir, e.Dir, ps[0].Name, []string{rec.Func}, scratch)
	if err != nil {
		fmt.Println("ERROR:", err)
		return 2
	}
	oc := runReplay(bin, e.Dir, replayCase{Func: rec.Func, Model: rec.Model}, e.ReplayTimeoutS, scratch, rec.Params)
	fmt.Printf("native replay of %s (%s: %s): %s %s\n%s\n", fs.Arg(0), rec.Kind, rec.Msg, oc.Status, oc.Msg, oc.Output)
	if oc.Status == "violation" || (oc.Status == "timeout" && rec.Kind == "steps") {
		fmt.Printf("VIOLATION property=%s replay=%s\n", *prop, fs.Arg(0))
		return 1
	}
	return 0
}

var _ = io.EOF
