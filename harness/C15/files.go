package main

import (
	"errors"
	"os"
	"path/filepath"
	"syscall"
	"time"

	"github.com/uber-go/gopatch/internal/zzverif/nd"
)

// Model of a directory tree for filepath.Walk.
type c15Node struct {
	name string
	mode os.FileMode
	kids []*c15Node
	abs  string
	par  *c15Node
}

type c15Info struct{ n *c15Node }

func (i c15Info) Name() string       { return i.n.name }
func (i c15Info) Size() int64        { return 0 }
func (i c15Info) Mode() os.FileMode  { return i.n.mode }
func (i c15Info) ModTime() time.Time { return time.Time{} }
func (i c15Info) IsDir() bool        { return i.n.mode.IsDir() }
func (i c15Info) Sys() any           { return nil }

var errC15NotExist = errors.New("lstat: no such file or directory")

var (
	c15Root  *c15Node
	c15Nodes []*c15Node // all nodes below the root
)

// StubC15Walk replaces path/filepath.Walk with a walker over the model tree
// that follows the documented contract of Walk (Lstat semantics, lexical
// order, SkipDir handling) statement by statement.
func StubC15Walk(root string, fn filepath.WalkFunc) error {
	find := func(p string) *c15Node {
		if p == c15Root.abs {
			return c15Root
		}
		for _, n := range c15Nodes {
			if p == n.abs {
				return n
			}
		}
		return nil
	}
	start := find(root)
	if start == nil {
		// the operating system resolves "." and ".." components; without
		// symbolic links in the way that is the lexically cleaned path
		start = find(filepath.Clean(root))
	}
	var err error
	if start == nil {
		err = fn(root, nil, errC15NotExist)
	} else {
		err = c15walk(start, root, fn)
	}
	if err == filepath.SkipDir || err == filepath.SkipAll {
		return nil
	}
	return err
}

// c15walk: Walk reports the root as given and every other entry as
// filepath.Join(dir, name), i.e. the cleaned directory path + "/" + name
// (names are single regular components).
func c15walk(n *c15Node, path string, fn filepath.WalkFunc) error {
	info := c15Info{n}
	if !info.IsDir() {
		return fn(path, info, nil)
	}
	if err1 := fn(path, info, nil); err1 != nil {
		return err1
	}
	for _, k := range n.kids {
		if err := c15walk(k, n.abs+"/"+k.name, fn); err != nil {
			if !k.mode.IsDir() || err != filepath.SkipDir {
				return err
			}
		}
	}
	return nil
}

func c15Name(tag string, lens []int) string {
	l := lens[nd.Choose(tag+"len", len(lens))]
	s := nd.Str(tag, l)
	for i := 0; i < len(s); i++ {
		nd.Assume(s[i] > 0x20)
		nd.Assume(s[i] < 0x7f)
		nd.Assume(s[i] != '/')
	}
	nd.Assume(nd.Not(nd.StrEq(s, ".")))
	nd.Assume(nd.Not(nd.StrEq(s, "..")))
	// a trailing "..." of an argument is ignored by specification, so an
	// entry whose own name ends in "..." cannot be named; not modelled.
	if l >= 3 {
		nd.Assume(nd.Not(nd.StrEq(s[l-3:], "...")))
	}
	return s
}

// one of: regular, directory, symlink, named pipe (permission bits fixed)
func c15Mode(tag string) os.FileMode {
	m := os.FileMode(nd.Uint32(tag))
	nd.Assume(nd.Or(nd.Or(m == 0o644, m == os.ModeDir|0o755), nd.Or(m == os.ModeSymlink|0o777, m == os.ModeNamedPipe|0o644)))
	return m
}

func c15Excluded(name string) bool {
	return nd.Or(nd.Or(name[0] == '.', name[0] == '_'), nd.Or(nd.StrEq(name, "testdata"), nd.StrEq(name, "vendor")))
}

func c15IsGo(n *c15Node) bool {
	suffix := false
	if len(n.name) >= 3 {
		suffix = nd.StrEq(n.name[len(n.name)-3:], ".go")
	}
	return nd.And(n.mode&os.ModeType == 0, suffix)
}

func c15IsDir(n *c15Node) bool { return n.mode&os.ModeDir != 0 }

func c15Materialise(n *c15Node) {
	switch {
	case n.mode.IsDir():
		if err := os.Mkdir(n.abs, 0o755); err != nil {
			panic(err)
		}
		for _, k := range n.kids {
			c15Materialise(k)
		}
	case n.mode&os.ModeSymlink != 0:
		if err := os.Symlink("/dev/null", n.abs); err != nil {
			panic(err)
		}
	case n.mode&os.ModeNamedPipe != 0:
		if err := syscall.Mkfifo(n.abs, 0o644); err != nil {
			panic(err)
		}
	default:
		if err := os.WriteFile(n.abs, []byte("package x\n"), 0o644); err != nil {
			panic(err)
		}
	}
}

// VerifC15Files: findFiles returns exactly the requested Go files, once each, sorted.
func VerifC15Files() {
	cwd := "/w"
	if !nd.Symbolic() {
		d, err := os.MkdirTemp("", "verifc15-")
		if err != nil {
			panic(err)
		}
		defer os.RemoveAll(d)
		cwd, _ = filepath.EvalSymlinks(d)
	}
	var lens []int
	lm := nd.Param("LENS", 7)
	for k, l := range []int{2, 4, 6, 8} {
		if lm&(1<<k) != 0 {
			lens = append(lens, l)
		}
	}
	k1 := 1 + nd.Choose("k1", nd.Param("K1", 2))
	c15Root = &c15Node{name: filepath.Base(cwd), mode: os.ModeDir | 0o755, abs: cwd}
	c15Nodes = nil
	add := func(par *c15Node, tag string) *c15Node {
		n := &c15Node{name: c15Name(tag, lens), mode: c15Mode(tag + "mode"), par: par}
		if len(par.kids) > 0 { // lexical order, distinct names
			nd.Assume(par.kids[len(par.kids)-1].name < n.name)
		}
		n.abs = par.abs + "/" + n.name
		par.kids = append(par.kids, n)
		c15Nodes = append(c15Nodes, n)
		return n
	}
	for i := 0; i < k1; i++ {
		add(c15Root, "e")
	}
	e0 := c15Root.kids[0]
	if nd.Choose("nested", 2) == 1 {
		nd.Assume(c15IsDir(e0))
		k2 := 1 + nd.Choose("k2", nd.Param("K2", 1))
		for i := 0; i < k2; i++ {
			add(e0, "f")
		}
	}
	if !nd.Symbolic() {
		for _, k := range c15Root.kids {
			c15Materialise(k)
		}
	}

	// arguments
	type argT struct {
		s      string
		target *c15Node
	}
	mk := func(kind int) argT {
		switch kind {
		case 0:
			return argT{".", c15Root}
		case 1:
			return argT{"./...", c15Root}
		case 2:
			return argT{cwd, c15Root}
		case 3:
			return argT{e0.name, e0}
		case 4:
			return argT{e0.abs, e0}
		case 5:
			return argT{e0.name + "/...", e0}
		case 6:
			nd.Assume(len(e0.kids) > 0)
			f0 := e0.kids[0]
			return argT{e0.name + "/" + f0.name, f0}
		case 7: // absolute, not in shortest form
			return argT{cwd + "/./" + e0.name, e0}
		default:
			nd.Assume(len(e0.kids) > 0)
			f0 := e0.kids[0]
			return argT{e0.abs + "/../" + e0.name + "/" + f0.name, f0}
		}
	}
	nargs := nd.Param("MINARGS", 1) + nd.Choose("nargs", nd.Param("MAXARGS", 2)-nd.Param("MINARGS", 1)+1)
	var args []argT
	var patterns []string
	for i := 0; i < nargs; i++ {
		a := mk(nd.Choose("arg", nd.Param("ARGFORMS", 9)))
		args = append(args, a)
		patterns = append(patterns, a.s)
	}

	files, err := findFiles(cwd, patterns)
	nd.Assert(err == nil, "findFiles reported an error for existing paths")

	// oracle
	for _, n := range c15Nodes {
		must, reach, unconstrained := false, false, false
		for _, a := range args {
			t := a.target
			switch {
			case t == n: // named explicitly
				must = nd.Or(must, true)
				reach = nd.Or(reach, true)
			case t == n.par || (n.par != nil && t == n.par.par):
				// t is a directory above n (only if it really is a directory)
				between := false // an excluded-name directory strictly between t and n
				if t != n.par {
					between = c15Excluded(n.par.name)
				}
				isdir := true
				texcl := false
				if t != c15Root {
					isdir = c15IsDir(t)
					texcl = c15Excluded(t.name)
				}
				if n.par != t {
					isdir = nd.And(isdir, c15IsDir(n.par))
				}
				via := nd.And(isdir, nd.Not(between))
				must = nd.Or(must, nd.And(via, nd.Not(texcl)))
				reach = nd.Or(reach, via)
				unconstrained = nd.Or(unconstrained, nd.And(via, texcl))
			}
		}
		isgo := c15IsGo(n)
		cnt := 0
		for _, f := range files {
			// the same file under another spelling of its path is the same file
			cnt = cnt + nd.Ite(nd.StrEq(filepath.Clean(f.Absolute), n.abs), 1, 0)
		}
		nd.Assert(nd.Implies(nd.And(isgo, must), cnt == 1), "a requested Go file is not processed exactly once")
		nd.Assert(nd.Implies(nd.Not(nd.And(isgo, reach)), cnt == 0), "a file that must not be processed is in the result")
		nd.Assert(cnt <= 1, "a file is processed more than once")
		_ = unconstrained
	}
	for i, f := range files {
		known := false
		for _, n := range c15Nodes {
			known = nd.Or(known, nd.StrEq(filepath.Clean(f.Absolute), n.abs))
		}
		nd.Assert(known, "result contains a path that is not in the tree")
		if i > 0 {
			nd.Assert(files[i-1].Absolute < f.Absolute, "result is not in ascending path order")
		}
	}
	nd.Reach("done")
}

// ReplayC15Files runs the harness a few times natively: Go randomises map
// iteration order, which the symbolic run explores by forking.
func ReplayC15Files() { VerifC15Files() }
