package main

// C15 finding 4: a directory that is excluded by name (.cache, _data, vendor,
// testdata) but cannot be read makes the whole run fail before any file is
// processed.  filepath.Walk reads a directory BEFORE it calls the callback for
// it and hands the read error to the callback; findGoFiles returns that error
// before it looks at the name, so the directory is not pruned.
//
// Goes in the repository root (package main). Uses helpers of finding1_test.go.
// When run as root the test temporarily drops its effective uid to 65534 so
// that permission bits are honoured.

import (
	"os"
	"path/filepath"
	"syscall"
	"testing"
)

func TestC15Finding4_UnreadableExcludedDirectory(t *testing.T) {
	if os.Geteuid() == 0 {
		if err := syscall.Seteuid(65534); err != nil {
			t.Skip("cannot drop privileges:", err)
		}
		defer syscall.Seteuid(0)
	}
	root, err := os.MkdirTemp("", "c15f4")
	if err != nil {
		t.Fatal(err)
	}
	defer os.RemoveAll(root)

	file := filepath.Join(root, "a.go")
	c15Write(t, file, c15Src)
	hidden := filepath.Join(root, ".cache")
	if err := os.Mkdir(hidden, 0o000); err != nil {
		t.Fatal(err)
	}
	defer os.Chmod(hidden, 0o755)
	if _, err := os.ReadDir(hidden); err == nil {
		t.Skip("permission bits are not enforced here")
	}

	out, err := c15Run(t, root, ".")
	if err != nil {
		t.Errorf("run failed because of a directory it must not enter: %v", err)
	}
	got, _ := os.ReadFile(file)
	if want := "package p\n\nvar _ = mark(0 + 1)\n"; string(got) != want {
		t.Errorf("a.go not processed (log %q): %q", out, got)
	}
}
