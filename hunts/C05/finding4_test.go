package main

// C05 finding 4 (borderline, same family as the documented position-based
// pairing of elisions): with one "..." per line and all "-" lines before all
// "+" lines, the statements captured by the first "..." are deleted and the
// ones captured by the second are duplicated.
// Goes in the repository root (package main).

import (
	"bytes"
	"os"
	"path/filepath"
	"strings"
	"testing"
)

func TestFinding4_ElidedStatementsDroppedAndDuplicated(t *testing.T) {
	const patch = `@@
@@
-a()
-...
-b()
-...
-c()
+x()
+...
+y()
+...
+z()
`
	const src = `package a

func f() {
	a()
	first()
	b()
	second()
	c()
}
`
	dir := t.TempDir()
	pp := filepath.Join(dir, "p.patch")
	gp := filepath.Join(dir, "a.go")
	if err := os.WriteFile(pp, []byte(patch), 0o644); err != nil {
		t.Fatal(err)
	}
	if err := os.WriteFile(gp, []byte(src), 0o644); err != nil {
		t.Fatal(err)
	}
	var stdout, stderr bytes.Buffer
	cmd := &mainCmd{Stdin: strings.NewReader(""), Stdout: &stdout, Stderr: &stderr, Getwd: os.Getwd}
	if err := cmd.Run([]string{"-p", pp, gp}); err != nil {
		t.Fatalf("gopatch failed: %v\n%s", err, stderr.String())
	}
	outb, err := os.ReadFile(gp)
	if err != nil {
		t.Fatal(err)
	}
	out := string(outb)
	if n := strings.Count(out, "first()"); n != 1 {
		t.Errorf("elided statement first() occurs %d times, want 1", n)
	}
	if n := strings.Count(out, "second()"); n != 1 {
		t.Errorf("elided statement second() occurs %d times, want 1", n)
	}
	if t.Failed() {
		t.Logf("output:\n%s", out)
	}
}
