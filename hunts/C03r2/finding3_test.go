package patch

// Goes in: patch/ (package patch).
//
// C03 finding 3: type expressions bound to a metavariable are printed
// without the parentheses they need after "chan" and before "(...)", so the
// output silently means something else.

import (
	"go/ast"
	"go/parser"
	"go/token"
	"testing"
)

func TestC03H2Finding3_ChanOfReceiveChan(t *testing.T) {
	const patchSrc = "@@\nvar T expression\n@@\n-Future[T]\n+chan T\n"
	const src = "package p\n\nvar b Future[<-chan int]\n"

	pf, err := Parse("chan.patch", []byte(patchSrc))
	if err != nil {
		t.Fatal(err)
	}
	out, err := pf.Apply("a.go", []byte(src))
	if err != nil {
		t.Fatal(err)
	}
	f, err := parser.ParseFile(token.NewFileSet(), "a.go", out, 0)
	if err != nil {
		t.Fatalf("%v\n%s", err, out)
	}
	typ := f.Decls[0].(*ast.GenDecl).Specs[0].(*ast.ValueSpec).Type
	outer, ok := typ.(*ast.ChanType)
	if !ok {
		t.Fatalf("got %T, want a channel type:\n%s", typ, out)
	}
	// Want: chan (<-chan int): a bidirectional channel of receive-only channels.
	if outer.Dir != ast.SEND|ast.RECV {
		t.Errorf("'+chan T' with T = '<-chan int' became a channel with direction %v, want a bidirectional channel:\n%s", outer.Dir, out)
	}
	inner := outer.Value
	if p, ok := inner.(*ast.ParenExpr); ok {
		inner = p.X
	}
	if in, ok := inner.(*ast.ChanType); !ok || in.Dir != ast.RECV {
		t.Errorf("element type is not '<-chan int':\n%s", out)
	}
}

func TestC03H2Finding3_ConversionToSliceOfFunc(t *testing.T) {
	const patchSrc = "@@\nvar T expression\n@@\n-make([]T, 0)\n+[]T(nil)\n"
	const src = "package p\n\nvar hooks = make([]func(), 0)\n"

	pf, err := Parse("conv.patch", []byte(patchSrc))
	if err != nil {
		t.Fatal(err)
	}
	out, err := pf.Apply("a.go", []byte(src))
	if err != nil {
		t.Fatal(err)
	}
	f, err := parser.ParseFile(token.NewFileSet(), "a.go", out, 0)
	if err != nil {
		t.Fatalf("%v\n%s", err, out)
	}
	v := f.Decls[0].(*ast.GenDecl).Specs[0].(*ast.ValueSpec).Values[0]
	// Want the conversion ([]func())(nil).
	if _, ok := v.(*ast.CallExpr); !ok {
		t.Errorf("'+[]T(nil)' with T = 'func()' is no longer a conversion but a %T:\n%s", v, out)
	}
}
