package patch

// Finding 5 (C04): an elided result list. '...' in a result list can only be
// written inside parentheses, but the parentheses of the pattern are matched
// literally (token.Pos validity of FieldList.Opening/Closing), so
// "(..., error)" does not match the one-element result list of
// "func foo() error" although the empty run makes every explicit element match.
//
// Goes in: patch/ (package patch). Uses applyC04 from finding1_test.go.

import (
	"strings"
	"testing"
)

func TestFinding5_ElidedResultListVsUnparenthesizedResult(t *testing.T) {
	patch := "@@\n@@\n-func foo() (..., error) {\n+func bar() (..., error) {\n   ...\n }\n"

	// Control: parenthesized results.
	got, err := applyC04(t, patch, "package p\n\nfunc foo() (int, error) {\n\treturn 0, nil\n}\n")
	if err != nil {
		t.Fatal(err)
	}
	if !strings.Contains(got, "func bar() (int, error)") {
		t.Fatalf("control case not rewritten:\n%s", got)
	}

	got, err = applyC04(t, patch, "package p\n\nfunc foo() error {\n\treturn nil\n}\n")
	if err != nil {
		t.Fatal(err)
	}
	if !strings.Contains(got, "func bar()") {
		t.Errorf("result list [error] not matched by (..., error); got:\n%s", got)
	}
}
