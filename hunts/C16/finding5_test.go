package main

// Goes into the repository root (package main).
//
// C16: "Whenever a requested path ... could not be processed the exit status
// is non-zero and stderr names the path and the cause" - and, implicitly, no
// file other than the requested ones is rewritten.
//
// findGoFiles (main.go) turns a relative pattern into an absolute one with
// filepath.Join(cwd, pattern), which removes ".." LEXICALLY. os.Getwd returns
// $PWD, i.e. the logical path the shell used to get here. If the working
// directory was entered through a symlink, "../x.go" names one file for the
// kernel (and for `cat`, the shell's completion, and gopatch's own -p flag,
// which is opened as given) and a different file for gopatch's targets.
// gopatch rewrites the file the user did not name and leaves the one he did
// name alone, exit status 0.

import (
	"bytes"
	"os"
	"path/filepath"
	"strings"
	"testing"
)

func TestFinding5_DotDotUnderSymlinkedCwdPatchesAnotherFile(t *testing.T) {
	root := t.TempDir()
	mk := func(path, body string) {
		if err := os.MkdirAll(filepath.Dir(path), 0o755); err != nil {
			t.Fatal(err)
		}
		if err := os.WriteFile(path, []byte(body), 0o644); err != nil {
			t.Fatal(err)
		}
	}
	//   root/real/proj/x.go        <- what "../x.go" means inside root/other/cmd
	//   root/real/proj/cmd/
	//   root/other/x.go            <- unrelated file
	//   root/other/cmd -> ../real/proj/cmd
	requested := filepath.Join(root, "real", "proj", "x.go")
	unrelated := filepath.Join(root, "other", "x.go")
	patch := filepath.Join(root, "p.patch")
	mk(patch, "@@\n@@\n-foo()\n+bar()\n")
	mk(requested, "package a\n\nfunc f() {\n\tfoo()\n}\n")
	mk(unrelated, "package decoy\n\nfunc f() {\n\tfoo()\n}\n")
	if err := os.MkdirAll(filepath.Join(root, "real", "proj", "cmd"), 0o755); err != nil {
		t.Fatal(err)
	}
	cwd := filepath.Join(root, "other", "cmd") // what $PWD / os.Getwd report after `cd root/other/cmd`
	if err := os.Symlink(filepath.Join("..", "real", "proj", "cmd"), cwd); err != nil {
		t.Skip(err)
	}

	// Sanity: for the operating system, <cwd>/../x.go is the "requested" file.
	viaKernel, err := os.ReadFile(cwd + "/../x.go")
	if err != nil {
		t.Fatal(err)
	}
	if !strings.HasPrefix(string(viaKernel), "package a\n") {
		t.Fatalf("test setup broken: %q", viaKernel)
	}

	var stdout, stderr bytes.Buffer
	cmd := &mainCmd{
		Stdin:  new(bytes.Buffer),
		Stdout: &stdout,
		Stderr: &stderr,
		Getwd:  func() (string, error) { return cwd, nil },
	}
	runErr := cmd.Run([]string{"-p", patch, "../x.go"})

	gotRequested, _ := os.ReadFile(requested)
	gotUnrelated, _ := os.ReadFile(unrelated)

	if strings.Contains(string(gotUnrelated), "bar()") {
		t.Errorf("%s was rewritten although it was never requested", unrelated)
	}
	if runErr == nil && !strings.Contains(string(gotRequested), "bar()") {
		t.Errorf("requested file ../x.go (= %s) was not processed, yet Run returned nil; stderr=%q",
			requested, stderr.String())
	}
}
