package patch_test

// Finding 4 (C17): goes in directory  patch/  (package patch_test).
//
// Two changes in one patch. The first renames the package, so the snapshot
// taken after it no longer knows the comments attached to the package name
// (astdiff only carries Comments over for unchanged nodes). The second change
// turns the first, parenthesised declaration from var into const; the region
// of the GenDecl.Tok field then starts right after the package name and
// swallows the package clause's trailing comment and the comment after it.

import (
	"strings"
	"testing"

	"github.com/uber-go/gopatch/patch"
)

func TestFinding4_PackageCommentsLostAfterRenameThenTokChange(t *testing.T) {
	const p = `@@
@@
-package a
+package b

-foo()
+bar()

@@
var x identifier
@@
-var (
-  x = OLD
-)
+const (
+  x = NEW
+)
`
	const src = `// H header

// P doc
package a // P trailing
// P after

var (
	T0 = OLD
)

func T1() { foo() }
`
	f, err := patch.Parse("p.patch", []byte(p))
	if err != nil {
		t.Fatal(err)
	}
	out, err := f.Apply("a.go", []byte(src))
	if err != nil {
		t.Fatal(err)
	}
	for _, c := range []string{"// H header", "// P doc", "// P trailing", "// P after"} {
		if n := strings.Count(string(out), c); n != 1 {
			t.Errorf("header/package comment %q appears %d times, want 1\n%s", c, n, out)
		}
	}
}
