package main

import (
	"bytes"
	"os"
	"path/filepath"
	"strings"
	"testing"
)

// C12: "descriptions go to stderr only, and only for files to which a
// described change applied".
//
// The pattern "foo" matches the identifier in the name position of
// "var foo = 1" / "func foo()" / a label, but the replacement "pkg.Foo"
// cannot be put there, and FileReplacer.Replace silently leaves the node alone
// ("if give.Type().AssignableTo(v.Type()) { v.Set(give) }"). Nothing in the
// file changes - the default mode rewrites it with identical bytes and --diff
// prints a header without hunks - yet the description of the change is
// reported for the file (and -v says "patched").
func TestFinding6DescriptionForUnchangedFile(t *testing.T) {
	const patch = "# use pkg.Foo\n@@\n@@\n-foo\n+pkg.Foo\n"

	tests := []struct{ name, src string }{
		{"variable name", "package a\n\nvar foo = 1\n"},
		{"function name", "package a\n\nfunc foo() {}\n"},
		{"label", "package a\n\nfunc f() {\nfoo:\n\tfor {\n\t\tbreak foo\n\t}\n}\n"},
	}
	for _, tt := range tests {
		t.Run(tt.name, func(t *testing.T) {
			run := func(flags ...string) (stdout, stderr, file string) {
				dir := t.TempDir()
				if err := os.WriteFile(filepath.Join(dir, "p.patch"), []byte(patch), 0o644); err != nil {
					t.Fatal(err)
				}
				if err := os.WriteFile(filepath.Join(dir, "a.go"), []byte(tt.src), 0o644); err != nil {
					t.Fatal(err)
				}
				var so, se bytes.Buffer
				cmd := &mainCmd{
					Stdin:  strings.NewReader(""),
					Stdout: &so,
					Stderr: &se,
					Getwd:  func() (string, error) { return dir, nil },
				}
				if err := cmd.Run(append(append([]string{"-p", filepath.Join(dir, "p.patch")}, flags...), "a.go")); err != nil {
					t.Fatal(err)
				}
				b, _ := os.ReadFile(filepath.Join(dir, "a.go"))
				return so.String(), se.String(), string(b)
			}

			_, _, written := run()
			if written != tt.src {
				t.Skipf("the change did apply: %q", written)
			}
			// No change applied to the file, so no description may be
			// reported for it.
			for _, mode := range []string{"--diff", "--print-only"} {
				stdout, stderr, _ := run(mode)
				if stderr != "" {
					t.Errorf("%s: nothing in a.go changed, but stderr has %q (stdout %q)", mode, stderr, stdout)
				}
			}
		})
	}
}
