package patch

// C17 kernels over the interval computation: engine.Changelog (on the real
// go-intervals set) and cleanupFilePos, with every interval end-point and
// every comment position a solver variable.

import (
	"fmt"
	"go/ast"
	"go/token"

	"github.com/uber-go/gopatch/internal/engine"
	"github.com/uber-go/gopatch/internal/zzverif/nd"
)

const c17Size = 48 // bytes in the model file; positions are 1..49 (base 1)

type c17Iv struct{ s, e int }

func c17Intervals(name string, n int) []c17Iv {
	out := make([]c17Iv, n)
	for i := range out {
		out[i].s = nd.Int(name + "s")
		out[i].e = nd.Int(name + "e")
		nd.Assume(nd.And(nd.And(out[i].s >= 1, out[i].s <= out[i].e), out[i].e <= c17Size+1))
	}
	return out
}

// c17InSet: position p lies in (union of changed) minus (union of unchanged).
func c17InSet(p int, ch, un []c17Iv) bool {
	in := false
	for _, v := range ch {
		in = nd.Or(in, nd.And(v.s <= p, p < v.e))
	}
	for _, v := range un {
		in = nd.And(in, nd.Not(nd.And(v.s <= p, p < v.e)))
	}
	return in
}

// VerifC17Changelog: ChangedIntervals() never reports a position that was not
// recorded as changed, or that was explicitly recorded as unchanged, and
// reports ordered, non-overlapping, non-empty intervals. (The converse - every
// changed position is reported - is not needed for comment survival and is
// not asserted.)
func VerifC17Changelog() {
	ch := c17Intervals("c", nd.Param("NC", 2))
	un := c17Intervals("u", nd.Param("NU", 1))
	cl := engine.NewChangelog()
	// requests may arrive in any order
	order := nd.Choose("unchangedFirst", 2)
	if order == 1 {
		for _, v := range un {
			cl.Unchanged(token.Pos(v.s), token.Pos(v.e))
		}
	}
	for _, v := range ch {
		cl.Changed(token.Pos(v.s), token.Pos(v.e))
	}
	if order == 0 {
		for _, v := range un {
			cl.Unchanged(token.Pos(v.s), token.Pos(v.e))
		}
	}
	ivs := cl.ChangedIntervals()
	prevEnd := 0
	for _, iv := range ivs {
		s, e := int(iv.Start), int(iv.End)
		nd.Assert(s < e, "empty or inverted interval reported")
		nd.Assert(s >= prevEnd, "reported intervals overlap or are out of order")
		prevEnd = e
		// both end-points and an arbitrary interior point are really changed
		p := nd.Int("probe")
		nd.Assume(nd.And(s <= p, p < e))
		nd.Assert(c17InSet(p, ch, un), "a position that was not changed (or was marked unchanged) is reported as changed")
	}
	nd.Reach("done")
}

// VerifC17Cleanup: cleanupFilePos removes a comment only if every one of its
// positions lies in the changed set; survivors keep their identity, text and
// order; the line table stays well formed.
func VerifC17Cleanup() {
	ch := c17Intervals("c", nd.Param("NC", 2))
	un := c17Intervals("u", nd.Param("NU", 1))
	fset := token.NewFileSet()
	tf := fset.AddFile("a.go", 1, c17Size)
	tf.SetLines([]int{0, 8, 16, 24, 32, 40})
	cl := engine.NewChangelog()
	for _, v := range ch {
		cl.Changed(token.Pos(v.s), token.Pos(v.e))
	}
	for _, v := range un {
		cl.Unchanged(token.Pos(v.s), token.Pos(v.e))
	}
	// two groups of two comments, four bytes each, anywhere in the file in source order
	const clen = 4
	var groups []*ast.CommentGroup
	var all []*ast.Comment
	prev := 1
	for g := 0; g < 2; g++ {
		cg := &ast.CommentGroup{}
		for k := 0; k < nd.Param("PERGROUP", 2); k++ {
			p := nd.Int("cpos")
			nd.Assume(nd.And(p >= prev, p <= c17Size+1-clen))
			prev = p + clen
			c := &ast.Comment{Slash: token.Pos(p), Text: fmt.Sprintf("//%d%d", g, k)}
			cg.List = append(cg.List, c)
			all = append(all, c)
		}
		groups = append(groups, cg)
	}
	linesBefore := tf.LineCount()
	cleanupFilePos(tf, cl, groups)
	idx := 0
	for g, cg := range groups {
		for _, c := range cg.List {
			// survivors: same objects, same order, each once, still in their group
			found := false
			for idx < len(all) {
				if all[idx] == c {
					found = true
					idx++
					break
				}
				idx++
			}
			nd.Assert(found, "a comment was duplicated, reordered or invented")
			nd.Assert(c.Text[2] == byte('0'+g), "a comment moved to another group")
		}
	}
	for i, c := range all {
		survived := false
		for _, cg := range groups {
			for _, x := range cg.List {
				if x == c {
					survived = true
				}
			}
		}
		p := int(c.Slash)
		allIn := true
		for d := 0; d < clen; d++ {
			allIn = nd.And(allIn, c17InSet(p+d, ch, un))
		}
		nd.Assert(nd.Or(survived, allIn), fmt.Sprintf("comment %d lies (partly) outside the changed positions but was deleted", i))
	}
	nd.Assert(tf.LineCount() >= 1 && tf.LineCount() <= linesBefore, "line table damaged")
	nd.Reach("done")
}
