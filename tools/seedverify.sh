#!/bin/bash
# usage: tools/seedverify.sh <Cxx> <A|B> [srcdir]   — independently confirms a seeded change:
# builds, existing tests pass, demo fails with the change and passes without. Scratch worktree removed afterwards.
set -u
id=$1; m=$2; src=${3:-/tmp/wt/out_$id/$m}
export GOFLAGS=-mod=mod GOPROXY=off GOSUMDB=off GOTOOLCHAIN=local
wt=$(mktemp -d /tmp/verif-seed-XXXX); rmdir $wt
git -C /repo worktree add -q --detach $wt HEAD || exit 2
trap 'git -C /repo worktree remove --force $wt >/dev/null 2>&1' EXIT
cd $wt
demo=$(ls $src | grep -E 'demo.*_test\.go|demo\.sh' | head -1)
# where does the demo go? README says; heuristics: package clause of demo
pkg=$(grep -m1 '^package ' $src/$demo | awk '{print $2}')
case "$pkg" in
  main|main_test) dst=. ;;
  patch|patch_test) dst=patch ;;
  engine|engine_test) dst=internal/engine ;;
  section|section_test) dst=internal/parse/section ;;
  parse|parse_test) dst=internal/parse ;;
  augment) dst=internal/pgo/augment ;;
  pgo) dst=internal/pgo ;;
  *) dst=$(grep -oE '(internal|patch)[a-z/]*' $src/README.txt | head -1); dst=${dst:-.} ;;
esac
cp $src/$demo $dst/zz_seed_demo_test.go
tname=$(grep -oE 'func (Test[A-Za-z0-9_]+)' $dst/zz_seed_demo_test.go | awk '{print $2}' | paste -sd'|')
echo "demo -> $dst ($tname)"
base=$(go test -vet=off -count=1 -run "^($tname)\$" ./$dst 2>&1 | tail -3)
echo "$base" | grep -q '^ok' && b_ok=1 || b_ok=0
git apply $src/patch.diff || { echo "PATCH DOES NOT APPLY"; exit 1; }
go build ./... || { echo "DOES NOT BUILD"; exit 1; }
rm $dst/zz_seed_demo_test.go
suite=$(go test -vet=off -count=1 ./... 2>&1 | grep -v 'no test files')
echo "$suite" | grep -qv '^ok' && s_ok=0 || s_ok=1
cp $src/$demo $dst/zz_seed_demo_test.go
mut=$(go test -vet=off -count=1 -run "^($tname)\$" ./$dst 2>&1 | tail -3)
echo "$mut" | grep -q '^ok' && m_ok=1 || m_ok=0
echo "baseline-demo-pass=$b_ok suite-pass-with-change=$s_ok demo-pass-with-change=$m_ok"
[ $b_ok = 1 ] && [ $s_ok = 1 ] && [ $m_ok = 0 ] && { echo CONFIRMED; exit 0; }
echo "NOT CONFIRMED"; echo "$base"; echo "$suite"; echo "$mut"; exit 1
