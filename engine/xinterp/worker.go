package interp

// Worker: serves path-execution requests from the driver over stdin/stdout
// (one JSON document per line).

import (
	"bufio"
	"encoding/json"
	"fmt"
	"go/types"
	"io"
	"os"

	"golang.org/x/tools/go/ssa"
)

// Request is a driver -> worker message.
type Request struct {
	Op       string            `json:"op"` // entry | run | stats | quit
	Pkg      string            `json:"pkg,omitempty"`
	Func     string            `json:"func,omitempty"`
	Stubs    map[string]string `json:"stubs,omitempty"`
	Params   map[string]int64  `json:"params,omitempty"`
	MaxSteps int               `json:"max_steps,omitempty"`
	Prefix   []Decision        `json:"prefix,omitempty"`
	KeepPC   bool              `json:"keep_pc,omitempty"`
}

// Stats is the worker's cumulative accounting.
type Stats struct {
	Coverage   map[string][2]int `json:"coverage"`
	Intrinsics map[string]int    `json:"intrinsics"`
	Queries    int               `json:"queries"`
	Sat        int               `json:"sat"`
	Unsat      int               `json:"unsat"`
	Unknown    int               `json:"unknown"`
	Errors     int               `json:"errors"`
	SolverS    float64           `json:"solver_s"`
}

// Reply is a worker -> driver message.
type Reply struct {
	Ready  bool        `json:"ready,omitempty"`
	Error  string      `json:"error,omitempty"`
	Result *PathResult `json:"result,omitempty"`
	Stats  *Stats      `json:"stats,omitempty"`
	InitS  float64     `json:"init_s,omitempty"`
}

// Serve runs the worker loop.
func Serve(prog *ssa.Program, roots []*ssa.Package, in io.Reader, out io.Writer) {
	enc := json.NewEncoder(out)
	s := NewSession(prog, roots, &types.StdSizes{WordSize: 8, MaxAlign: 8})
	if err := s.InitOnce(); err != nil {
		enc.Encode(Reply{Error: err.Error()})
		return
	}
	z := newSolver()
	enc.Encode(Reply{Ready: true})
	rd := bufio.NewReaderSize(in, 1<<20)
	maxSteps := 5_000_000
	for {
		line, err := rd.ReadBytes('\n')
		if err != nil {
			return
		}
		var req Request
		if err := json.Unmarshal(line, &req); err != nil {
			enc.Encode(Reply{Error: "bad request: " + err.Error()})
			continue
		}
		switch req.Op {
		case "entry":
			if err := s.SetEntry(req.Pkg, req.Func, req.Stubs); err != nil {
				enc.Encode(Reply{Error: err.Error()})
				continue
			}
			s.Params = req.Params
			if req.MaxSteps > 0 {
				maxSteps = req.MaxSteps
			}
			enc.Encode(Reply{Ready: true})
		case "run":
			var res *PathResult
			func() {
				defer func() {
					if r := recover(); r != nil {
						// solver failure or engine bug outside a path
						res = &PathResult{Status: "inconclusive", Why: fmt.Sprint("engine failure: ", describePanic(r))}
						func() {
							defer func() { recover() }()
							z.cmd.Process.Kill()
						}()
						z2 := newSolver()
						z2.queries, z2.sat, z2.unsat, z2.unknown, z2.errors, z2.dur = z.queries, z.sat, z.unsat, z.unknown, z.errors, z.dur
						z = z2
					}
				}()
				res = s.RunPath(z, req.Prefix, maxSteps, req.KeepPC)
			}()
			enc.Encode(Reply{Result: res})
		case "stats":
			enc.Encode(Reply{Stats: &Stats{
				Coverage: s.Coverage(), Intrinsics: IntrinsicHits,
				Queries: z.queries, Sat: z.sat, Unsat: z.unsat, Unknown: z.unknown, Errors: z.errors,
				SolverS: z.dur.Seconds(),
			}})
		case "quit":
			z.send("(exit)")
			z.in.Flush()
			return
		}
	}
}

func init() { _ = os.Stderr }
