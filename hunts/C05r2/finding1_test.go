package patch

// Finding 1 (C05): any patch that matches a file strips the parentheses of
// every single-spec import declaration, although the patch says nothing about
// imports. A doc comment of the spec (for example the cgo preamble of
// import "C") ends up between "import" and the path, where it is the doc
// comment of neither the declaration nor the spec.
//
// Goes in directory: patch/

import (
	"go/ast"
	"go/parser"
	"go/token"
	"strings"
	"testing"
)

const finding1Patch = `@@
var x expression
@@
-foo(x)
+bar(x)
`

func TestFinding1_ImportParensOfUntouchedImportDecl(t *testing.T) {
	const src = `package a

import (
	"fmt"
)

func f() {
	fmt.Println(foo(1))
}
`
	p, err := Parse("p.patch", []byte(finding1Patch))
	if err != nil {
		t.Fatal(err)
	}
	out, err := p.Apply("a.go", []byte(src))
	if err != nil {
		t.Fatal(err)
	}

	f, err := parser.ParseFile(token.NewFileSet(), "a.go", out, parser.ParseComments)
	if err != nil {
		t.Fatalf("output does not parse: %v\n%s", err, out)
	}
	imp := f.Decls[0].(*ast.GenDecl)
	if imp.Tok != token.IMPORT {
		t.Fatalf("first declaration is not the import declaration:\n%s", out)
	}
	// The patch has no import lines: the import declaration must be left alone.
	if !imp.Lparen.IsValid() {
		t.Errorf("the patch does not mention imports, but \"import ( ... )\" lost its parentheses:\n%s", out)
	}
}

func TestFinding1_CgoPreambleDetached(t *testing.T) {
	const src = `package a

import (
	/*
	#include <stdio.h>
	*/
	"C"
)

func f() {
	foo(C.stdin)
}
`
	preamble := func(t *testing.T, src []byte) string {
		f, err := parser.ParseFile(token.NewFileSet(), "a.go", src, parser.ParseComments)
		if err != nil {
			t.Fatalf("does not parse: %v\n%s", err, src)
		}
		// This is how cmd/cgo finds the preamble of import "C".
		for _, d := range f.Decls {
			d, ok := d.(*ast.GenDecl)
			if !ok || d.Tok != token.IMPORT {
				continue
			}
			for _, s := range d.Specs {
				s := s.(*ast.ImportSpec)
				if s.Path.Value != `"C"` {
					continue
				}
				cg := s.Doc
				if cg == nil && len(d.Specs) == 1 {
					cg = d.Doc
				}
				if cg != nil {
					return cg.Text()
				}
			}
		}
		return ""
	}

	if !strings.Contains(preamble(t, []byte(src)), "#include <stdio.h>") {
		t.Fatal("test is broken: input has no cgo preamble")
	}

	p, err := Parse("p.patch", []byte(finding1Patch))
	if err != nil {
		t.Fatal(err)
	}
	out, err := p.Apply("a.go", []byte(src))
	if err != nil {
		t.Fatal(err)
	}
	if got := preamble(t, out); !strings.Contains(got, "#include <stdio.h>") {
		t.Errorf("cgo preamble of import \"C\" is %q after a patch that only renames foo to bar:\n%s", got, out)
	}
}
