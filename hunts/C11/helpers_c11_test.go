package patch

// Shared helpers for the C11 finding tests (finding1..4_test.go).
// Goes in the directory patch/ (package patch) next to the findingN_test.go files.

import (
	"fmt"
	"go/parser"
	"go/token"
	"sort"
	"strconv"
	"strings"
	"testing"
)

// c11Imports returns the sorted list of `name "path"` import specs of src.
func c11Imports(t *testing.T, src []byte) []string {
	t.Helper()
	f, err := parser.ParseFile(token.NewFileSet(), "x.go", src, parser.ImportsOnly)
	if err != nil {
		t.Fatalf("cannot parse: %v\n%s", err, src)
	}
	var out []string
	for _, s := range f.Imports {
		p, _ := strconv.Unquote(s.Path.Value)
		n := ""
		if s.Name != nil {
			n = s.Name.Name + " "
		}
		out = append(out, fmt.Sprintf("%s%q", n, p))
	}
	sort.Strings(out)
	return out
}

// c11Check applies patch to src and compares the import specs of the output
// with want (a list of `name "path"` strings).
func c11Check(t *testing.T, patchSrc, src string, want ...string) {
	t.Helper()
	pf, err := Parse("p.patch", []byte(patchSrc))
	if err != nil {
		t.Fatalf("patch does not parse: %v", err)
	}
	out, err := pf.Apply("x.go", []byte(src))
	if err != nil {
		t.Fatalf("apply: %v", err)
	}
	if string(out) == src {
		t.Fatalf("patch did not apply")
	}
	sort.Strings(want)
	got := c11Imports(t, out)
	if strings.Join(got, "; ") != strings.Join(want, "; ") {
		t.Errorf("imports after patch:\n got  %v\n want %v\noutput:\n%s", got, want, out)
	}
}
