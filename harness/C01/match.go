package engine

import (
	"reflect"

	"github.com/uber-go/gopatch/internal/data"
	"github.com/uber-go/gopatch/internal/zzverif/nd"
)

var c01Cases = []faCase{
	{name: "call-expr",
		patch: "@@\nvar x expression\n@@\n-foo(x, 42)\n+bar(x)\n",
		minus: "package p\n\nfunc f() {\n\tuse(⟦foo(«x:a+1», 42)⟧)\n}\n"},
	{name: "binary-literal",
		patch: "@@\n@@\n-a + b*2\n+c\n",
		minus: "package p\n\nvar v = ⟦a + b*2⟧\n"},
	{name: "selector-call-string",
		patch: "@@\nvar s expression\n@@\n-fmt.Sprintf(\"%s\", s)\n+s\n",
		minus: "package p\n\nfunc f() string {\n\treturn ⟦fmt.Sprintf(\"%s\", «s:name»)⟧\n}\n"},
	{name: "variadic-call",
		patch: "@@\nvar xs expression\n@@\n-sum(xs...)\n+total(xs)\n",
		minus: "package p\n\nfunc f() {\n\t_ = ⟦sum(«xs:nums»...)⟧\n}\n"},
	{name: "plain-call-not-variadic",
		patch: "@@\nvar xs expression\n@@\n-sum(xs)\n+total(xs)\n",
		minus: "package p\n\nfunc f() {\n\t_ = ⟦sum(«xs:nums»)⟧\n}\n"},
	{name: "type-decl",
		patch: "@@\n@@\n-type T legacy.Conn\n+type T = legacy.Conn\n",
		minus: "package p\n\n⟦type T legacy.Conn⟧\n"},
	{name: "type-alias",
		patch: "@@\n@@\n-type T = legacy.Conn\n+type T legacy.Conn\n",
		minus: "package p\n\n⟦type T = legacy.Conn⟧\n"},
	{name: "chan-type",
		patch: "@@\nvar T expression\n@@\n-make(<-chan T)\n+make(chan T)\n",
		minus: "package p\n\nvar c = ⟦make(<-chan «T:int»)⟧\n"},
	{name: "unary-index-slice",
		patch: "@@\nvar x expression\n@@\n--x[1:2]\n+x\n",
		minus: "package p\n\nvar c = g(⟦-«x:ys»[1:2]⟧)\n"},
	{name: "composite-kv",
		patch: "@@\nvar v expression\n@@\n-Point{X: v, Y: 0}\n+NewPoint(v)\n",
		minus: "package p\n\nvar c = []any{⟦Point{X: «v:q.w», Y: 0}⟧}\n"},
	{name: "func-lit-arg",
		patch: "@@\nvar x identifier\n@@\n-filter(func(x int) bool { return x > 0 })\n+positive()\n",
		minus: "package p\n\nvar c = ⟦filter(func(«x:n» int) bool { return «x:n» > 0 })⟧\n"},
	{name: "stmt-assign-incdec",
		patch: "@@\nvar i identifier\n@@\n-i += 1\n+i++\n",
		minus: "package p\n\nfunc f() {\n\tfor {\n\t\t⟦«i:cnt» += 1⟧\n\t}\n}\n"},
	{name: "stmt-if-return",
		patch: "@@\nvar err expression\n@@\n-if err != nil {\n-\treturn err\n-}\n+check(err)\n",
		minus: "package p\n\nfunc f() error {\n\tg()\n\t⟦if «err:e.x» != nil {\n\t\treturn «err:e.x»\n\t}⟧\n\treturn nil\n}\n"},
	{name: "stmt-two",
		patch: "@@\nvar x identifier\n@@\n-x.Lock()\n-defer x.Unlock()\n+locked(x)\n",
		minus: "package p\n\nfunc f() {\n\ta()\n\t⟦«x:mu».Lock()\n\tdefer «x:mu».Unlock()⟧\n\tb()\n}\n"},
	{name: "func-decl",
		patch: "@@\nvar f identifier\n@@\n-func f(ctx Context) error {\n-\treturn nil\n-}\n+func f() {}\n",
		minus: "package p\n\n⟦func «f:run»(ctx Context) error {\n\treturn nil\n}⟧\n"},
	{name: "method-decl",
		patch: "@@\nvar T identifier\n@@\n-func (t *T) Close() {}\n+func (t *T) Close() error { return nil }\n",
		minus: "package p\n\n⟦func (t *«T:Conn») Close() {}⟧\n"},
	{name: "var-decl",
		patch: "@@\nvar n identifier\nvar v expression\n@@\n-var n int = v\n+var n = v\n",
		minus: "package p\n\nfunc f() {\n\t⟦var «n:k» int = «v:3»⟧\n}\n"},
	{name: "const-decl",
		patch: "@@\n@@\n-const Max = 10\n+const Max = 20\n",
		minus: "package p\n\n⟦const Max = 10⟧\n"},
	{name: "range-stmt",
		patch: "@@\nvar xs expression\n@@\n-for i, v := range xs {\n-\tuse(i, v)\n-}\n+each(xs)\n",
		minus: "package p\n\nfunc f() {\n\t⟦for i, v := range «xs:list» {\n\t\tuse(i, v)\n\t}⟧\n}\n"},
	{name: "switch-case",
		patch: "@@\nvar x expression\n@@\n-switch x {\n-case 1:\n-\ta()\n-default:\n-\tb()\n-}\n+dispatch(x)\n",
		minus: "package p\n\nfunc f() {\n\t⟦switch «x:k» {\n\tcase 1:\n\t\ta()\n\tdefault:\n\t\tb()\n\t}⟧\n}\n"},
	{name: "go-defer-send",
		patch: "@@\nvar c expression\n@@\n-go func() { c <- 1 }()\n+send(c)\n",
		minus: "package p\n\nfunc f() {\n\t⟦go func() { «c:ch» <- 1 }()⟧\n}\n"},
	{name: "type-assert-star-paren",
		patch: "@@\nvar x expression\n@@\n-(*x).(io.Reader)\n+x\n",
		minus: "package p\n\nvar r = ⟦(*«x:p»).(io.Reader)⟧\n"},
	{name: "struct-type",
		patch: "@@\n@@\n-struct {\n-\tName string `json:\"name\"`\n-\tAge  int\n-}\n+Person\n",
		minus: "package p\n\nvar v ⟦struct {\n\tName string `json:\"name\"`\n\tAge  int\n}⟧\n"},
	{name: "map-array-types",
		patch: "@@\nvar n expression\n@@\n-map[string][n]int{}\n+nil\n",
		minus: "package p\n\nvar v = ⟦map[string][«n:4»]int{}⟧\n"},
	{name: "generic-index",
		patch: "@@\nvar x expression\n@@\n-Map[int, string](x)\n+x\n",
		minus: "package p\n\nvar v = ⟦Map[int, string](«x:src»)⟧\n"},
	{name: "label-branch",
		patch: "@@\n@@\n-continue outer\n+break outer\n",
		minus: "package p\n\nfunc f() {\nouter:\n\tfor {\n\t\tfor {\n\t\t\t⟦continue outer⟧\n\t\t}\n\t}\n}\n"},
	{name: "repeated-metavar",
		patch: "@@\nvar x expression\n@@\n-same(x, x)\n+one(x)\n",
		minus: "package p\n\nvar v = ⟦same(«x:f(a, 1)», «x:f(a, 1)»)⟧\n"},
}

// VerifC01Node: the node matcher compiled from the '-' pattern accepts the
// site iff every leaf outside the metavariable holes equals the pattern's.
func VerifC01Node() {
	c := c01Cases[nd.Choose("case", len(c01Cases))]
	r := faPrepare(c)
	r.symboliseSite(0)
	loc := r.locs[0]
	m := r.prog.Changes[0].matcher.NodeMatcher
	_, got := m.Match(reflect.ValueOf(loc.node), data.New(), nodeRegion(loc.node))
	nd.Assert(nd.Iff(got, r.want[0]), c.name+": matched iff the site is an instance of the pattern (every token equal, metavariable occurrences identical)")
	nd.Reach("done")
}

// VerifC01NearMiss: an extra or missing list element (argument, statement,
// field, name, case ...) outside the metavariable holes, or inside a later
// occurrence of a repeated metavariable, is never matched, whatever the leaves.
func VerifC01NearMiss() {
	c := c01Cases[nd.Choose("case", len(c01Cases))]
	r := faPrepare(c)
	_, n := r.nearMiss(0, 0)
	if n == 0 {
		nd.Reach("done")
		return
	}
	sel := 1 + nd.Choose("nearmiss", n)
	if ok, _ := r.nearMiss(0, sel); !ok {
		nd.Reach("done")
		return
	}
	r.symboliseSite(0)
	loc := r.locs[0]
	m := r.prog.Changes[0].matcher.NodeMatcher
	_, got := m.Match(reflect.ValueOf(loc.node), data.New(), nodeRegion(loc.node))
	nd.Assert(!got, c.name+": a site with an extra or missing list element was matched")
	nd.Reach("done")
}
