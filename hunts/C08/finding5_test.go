package patch

// Goes in: patch/ (package github.com/uber-go/gopatch/patch).
//
// C08: "never loops forever ... on small inputs".
// After a successful rewrite, astdiff compares the file before and after the
// change. For two lists that differ, diff.Difference calls the comparison
// function at least twice for the same pair of elements, and comparing two
// elements (astdiff.compareNodes) runs diff.Difference again on every list
// below them, without any memoization: the time doubles (at least) with every
// level of list nesting (call arguments, blocks, composite literals, ...)
// between the root of the file and the rewritten node.

import (
	"strings"
	"testing"
	"time"
)

func TestFinding5_AstdiffExponentialInNestingDepth(t *testing.T) {
	const patchSrc = "@@\n@@\n-foo()\n+bar()\n"
	const depth = 26
	// One line: var x = f(f(f(...f(foo())...)))
	goSrc := "package a\n\nvar x = " + strings.Repeat("f(", depth) + "foo()" + strings.Repeat(")", depth) + "\n"

	f, err := Parse("p.patch", []byte(patchSrc))
	if err != nil {
		t.Fatalf("patch must parse: %v", err)
	}

	done := make(chan struct{})
	go func() {
		defer close(done)
		defer func() { _ = recover() }()
		_, _ = f.Apply("a.go", []byte(goSrc))
	}()
	select {
	case <-done:
	case <-time.After(30 * time.Second):
		t.Fatalf("Apply did not terminate within 30s on a %d-byte file (%d nested calls)", len(goSrc), depth)
	}
}
