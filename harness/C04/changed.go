package engine

import (
	"fmt"
	"go/ast"
	"go/parser"
	"go/token"
	"reflect"

	"github.com/uber-go/gopatch/internal/data"
	"github.com/uber-go/gopatch/internal/parse"
	"github.com/uber-go/gopatch/internal/zzverif/nd"
)

// Elisions on changed lines, one on each side. C04: "or is the only '...' on
// each side, the elements it stood for reappear at that place". A patch whose
// '+' elision cannot be paired with the '-' one may be rejected when it is
// loaded, or fail when applied; it never loses the elements silently.
var c04ChangedForms = []struct{ name, patch string }{
	{"minus-then-plus", "@@\n@@\n-f(...)\n+g(...)\n"},
	{"plus-then-minus", "@@\n@@\n+g(...)\n-f(...)\n"},
	{"minus-then-plus-more-columns", "@@\n@@\n-f(...)\n+gggg.g(0, ...)\n"},
	{"plus-then-minus-explicit", "@@\nvar x identifier\n@@\n+g(x, ...)\n-f(x, ...)\n"},
	{"same-line-columns", "@@\n@@\n-ffff(h(...))\n+g(...)\n"},
}

func VerifC04ChangedLines() {
	form := c04ChangedForms[nd.Choose("form", len(c04ChangedForms))]
	n := nd.Choose("n", nd.Param("N", 3)+1)
	fset := token.NewFileSet()
	pp, err := parse.Parse(fset, "p.patch", []byte(form.patch))
	if err != nil {
		panic("harness: " + err.Error())
	}
	prog, err := Compile(fset, pp)
	if err != nil {
		// rejected when loaded: nothing is rewritten, nothing is lost
		nd.Reach("rejected")
		return
	}
	src := "package p\n\nvar _ = f(" + c04Repeat(n, "q", ", ") + ")\n"
	if form.name == "plus-then-minus-explicit" {
		src = "package p\n\nvar _ = f(k" + c04Repeat(n, ", q", "") + ")\n"
	}
	if form.name == "same-line-columns" {
		src = "package p\n\nvar _ = ffff(h(" + c04Repeat(n, "q", ", ") + "))\n"
	}
	file, err := parser.ParseFile(fset, "a.go", src, 0)
	if err != nil {
		panic("harness: " + err.Error())
	}
	call := file.Decls[0].(*ast.GenDecl).Specs[0].(*ast.ValueSpec).Values[0].(*ast.CallExpr)
	args := call.Args
	if form.name == "same-line-columns" {
		args = args[0].(*ast.CallExpr).Args
	}
	if form.name == "plus-then-minus-explicit" {
		args = args[1:]
	}
	names := make([]string, n)
	for i := range names {
		b := nd.Byte("e")
		nd.Assume(b >= 'a')
		nd.Assume(b <= 'z')
		names[i] = string([]byte{b})
		args[i].(*ast.Ident).Name = names[i]
	}
	ch := prog.Changes[0]
	d, got := ch.matcher.NodeMatcher.Match(reflect.ValueOf(call), data.New(), nodeRegion(call))
	nd.Assert(got, form.name+": f(...) did not match a call of f")
	if !got {
		return
	}
	out, rerr := ch.replacer.NodeReplacer.Replace(d, NewChangelog(), call.Pos())
	if rerr != nil {
		nd.Reach("failed-loudly")
		return
	}
	oc, ok := out.Interface().(*ast.CallExpr)
	nd.Assert(ok, form.name+": rewritten node is not a call")
	if !ok {
		return
	}
	skip := 0
	if form.name == "minus-then-plus-more-columns" || form.name == "plus-then-minus-explicit" {
		skip = 1
	}
	nd.Assert(len(oc.Args) == n+skip, fmt.Sprintf("%s: the only '...' of the '-' side stood for %d elements but the only '...' of the '+' side produced %d", form.name, n, len(oc.Args)-skip))
	if len(oc.Args) != n+skip {
		return
	}
	for i := 0; i < n; i++ {
		id, isID := oc.Args[i+skip].(*ast.Ident)
		nd.Assert(isID && nd.StrEq(id.Name, names[i]), fmt.Sprintf("%s: elided element %d did not reappear unchanged at its place", form.name, i))
	}
	nd.Reach("reproduced")
}
