package main

import (
	"errors"
	"fmt"
	"go/token"
	"io"
	"os"

	"github.com/uber-go/gopatch/internal/engine"
	"github.com/uber-go/gopatch/internal/zzverif/nd"
)

// Model of the patch files on disk for the real loadPatches / patchLoader.
var (
	c09Files   map[string]*os.File // name -> handle token
	c09Content map[*os.File][]byte
	c09Off     map[*os.File]int
	c09Loaded  []string // order in which patches were compiled
	c09Stdin   *c09Reader
)

type c09Reader struct{}

func (*c09Reader) Read(p []byte) (int, error) { return 0, io.EOF }

func StubC09Open(name string) (*os.File, error) {
	if f, ok := c09Files[name]; ok {
		c09Off[f] = 0
		return f, nil
	}
	return nil, errors.New("open " + name + ": no such file or directory")
}

// c09Unreadable: files that open but cannot be read (a directory given where a file is expected).
var c09Unreadable = map[*os.File]bool{}

func StubC09FileRead(f *os.File, b []byte) (int, error) {
	if c09Unreadable[f] {
		return 0, errors.New("read list.txt: is a directory")
	}
	c, off := c09Content[f], c09Off[f]
	if off >= len(c) {
		return 0, io.EOF
	}
	n := copy(b, c[off:])
	c09Off[f] = off + n
	return n, nil
}

func StubC09FileClose(f *os.File) error { return nil }

func StubC09ReadAll(r io.Reader) ([]byte, error) {
	if f, ok := r.(*os.File); ok {
		return c09Content[f], nil
	}
	return []byte("stdin"), nil
}

func StubC09ParseAndCompile(fset *token.FileSet, name string, src []byte) (*engine.Program, error) {
	c09Loaded = append(c09Loaded, name)
	for i, n := range []string{"p0.patch", "p1.patch", "p2.patch", "stdin"} {
		if n == name && i < len(frEnv.progs) {
			return frEnv.progs[i], nil
		}
	}
	return nil, errors.New("unknown patch " + name)
}

// VerifC09Order: patches are loaded in flag order (-p ... then the -P list,
// or stdin), changes are tried in file order on every file, a change that
// does not match skips nothing, and a failing step leaves the file untouched
// and fails the run.
func VerifC09Order() {
	nfiles := nd.Param("FILES", 2)
	nc := nd.Param("CHANGES", 2)
	frAllow.replaceErr = true
	frEnv = frNewEnv(nfiles, []int{nc, nc, nc, 1})
	e := frEnv
	c09Files, c09Content, c09Off, c09Loaded = map[string]*os.File{}, map[*os.File][]byte{}, map[*os.File]int{}, nil
	add := func(name, content string) {
		f := new(os.File)
		c09Files[name] = f
		c09Content[f] = []byte(content)
	}
	add("p0.patch", "P0")
	add("p1.patch", "P1")
	add("p2.patch", "P2")
	o := &options{Diff: nd.Bool("diff"), Print: nd.Bool("print")}
	o.Args.Patterns = []string{"."}
	var want []int // expected program order (indices into frEnv.progs)
	switch nd.Choose("how", 5) {
	case 0:
		o.Patches = []string{"p0.patch", "p1.patch"}
		want = []int{0, 1}
	case 1:
		o.Patches = []string{"p1.patch", "p0.patch"}
		want = []int{1, 0}
	case 2:
		add("list.txt", "p0.patch\n\np1.patch\n")
		o.PatchesFile = "list.txt"
		want = []int{0, 1}
	case 3:
		add("list.txt", "p2.patch\n\n\np0.patch")
		o.Patches = []string{"p1.patch"}
		o.PatchesFile = "list.txt"
		want = []int{1, 2, 0}
	default:
		want = []int{3} // stdin
	}
	e.opts = o
	for i := 0; i < nfiles; i++ {
		for k := range e.match[i] {
			frDraw(&e.match[i][k], fmt.Sprintf("match_f%d_c%d", i, k), true)
		}
	}
	cmd := frCmd()
	cmd.Stdin = &c09Reader{}
	err := cmd.Run(nil)

	var order []int // flattened change indices in the prescribed order
	base := []int{0, nc, 2 * nc, 3 * nc}
	for _, p := range want {
		n := nc
		if p == 3 {
			n = 1
		}
		for c := 0; c < n; c++ {
			order = append(order, base[p]+c)
		}
	}
	anyFail := false
	for i := 0; i < nfiles; i++ {
		var seq []int // changes actually rewritten on file i, in order
		for _, fx := range e.effects {
			if fx.file == i && fx.kind == "replace" {
				seq = append(seq, fx.chg)
			}
		}
		pos := 0
		failed := false
		for _, k := range order {
			if failed {
				break
			}
			// would change k apply to this file? (a fact about file and change, drawn up front)
			m := e.match[i][k]
			replaced := pos < len(seq) && seq[pos] == k
			nd.Assert(nd.Iff(m.val, replaced), fmt.Sprintf("file %d: change %d must be applied, in the prescribed order (flag order, list order, change order), iff it matches", i, k))
			if replaced {
				pos++
				if r := e.replaceErr[i][k]; r.set && r.val {
					failed = true
				}
			}
		}
		nd.Assert(pos == len(seq), fmt.Sprintf("file %d: further changes applied after the prescribed sequence or after a failed step", i))
		if failed {
			anyFail = true
			nd.Assert(len(e.effectsFor(i, "write", "fsmut", "diff", "stderr")) == 0, fmt.Sprintf("file %d: written, diffed or described although a step failed", i))
			for _, fx := range e.effectsFor(i, "stdout") {
				// under --print-only the untouched original may be echoed, as for any file left unchanged
				nd.Assert(nd.And(o.Print, frBytesEq(fx.data, e.content[i])), fmt.Sprintf("file %d: new bytes printed although a step failed", i))
			}
		}
	}
	if anyFail {
		nd.Assert(err != nil, "a failed step was not reported")
	}
	nd.Reach("done")
}

// ReplayC09Order realises the change/match/failure bits with real patches and
// runs the real entry point (patches given as -p files in the model's order
// when the model used -p; the -P and stdin loaders are exercised natively by
// writing a real list file / piping stdin).
func ReplayC09Order() {
	nc := nd.Param("CHANGES", 2)
	how, _ := nd.Lookup("how")
	progs := [][]int{{0, 1}, {1, 0}, {0, 1}, {1, 2, 0}, {3}}[how]
	// renumber: the realiser's scenario has one patch per program in run order
	var nch []int
	for _, p := range progs {
		if p == 3 {
			nch = append(nch, 1)
		} else {
			nch = append(nch, nc)
		}
	}
	s := frScenarioFromModel(nd.Param("FILES", 2), nch)
	// map model change indices (p*nc+c) to scenario indices (position in run order)
	base := []int{0, nc, 2 * nc, 3 * nc}
	for i := 0; i < s.nfiles; i++ {
		k2 := 0
		for _, p := range progs {
			for c := 0; c < nch[indexOf(progs, p)]; c++ {
				s.match[i][k2] = frBit(fmt.Sprintf("match_f%d_c%d", i, base[p]+c))
				k2++
			}
		}
	}
	for k := range s.replaceErr {
		s.replaceErr[k] = false
	}
	k2 := 0
	for _, p := range progs {
		for c := 0; c < nch[indexOf(progs, p)]; c++ {
			for i := 0; i < s.nfiles; i++ {
				if frBit(fmt.Sprintf("replaceErr_f%d_c%d", i, base[p]+c)) {
					s.replaceErr[k2] = true
				}
			}
			k2++
		}
	}
	s.listFile = how == 2 || how == 3
	s.listFrom = 0
	if how == 3 {
		s.listFrom = 1
	}
	s.stdin = how == 4
	s.frCheckNative(s.runNative())
}

func indexOf(xs []int, v int) int {
	for i, x := range xs {
		if x == v {
			return i
		}
	}
	return -1
}
