package patch

// Goes in: patch/ (package patch).
//
// C03 finding 8 (low severity): Go comments on '+' lines, including
// directives, are dropped from the rewritten code.

import (
	"strings"
	"testing"
)

func TestC03H2Finding8_PlusCommentsDropped(t *testing.T) {
	const patchSrc = "@@\nvar x expression\n@@\n-log(x)\n+//nolint:errcheck\n+logf(x) // TODO(me): remove\n"
	const src = `package p

func a() {
	log(s)
}
`
	pf, err := Parse("cmt.patch", []byte(patchSrc))
	if err != nil {
		t.Fatal(err)
	}
	out, err := pf.Apply("a.go", []byte(src))
	if err != nil {
		t.Fatal(err)
	}
	for _, want := range []string{"//nolint:errcheck", "// TODO(me): remove"} {
		if !strings.Contains(string(out), want) {
			t.Errorf("missing %q:\n%s", want, out)
		}
	}
}
