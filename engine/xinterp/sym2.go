package interp

import (
	"fmt"
	"go/token"
	"go/types"
	"unicode/utf8"

	"golang.org/x/tools/go/ssa"
)

func symUnop(instr *ssa.UnOp, x value) (value, bool) {
	switch x := x.(type) {
	case symBool:
		if instr.Op == token.NOT {
			return symBool{"(not " + x.t + ")"}, true
		}
	case symInt:
		switch instr.Op {
		case token.SUB:
			return symInt{"(bvneg " + x.t + ")", x.k}, true
		case token.XOR:
			return symInt{"(bvnot " + x.t + ")", x.k}, true
		}
	case *symElem:
		if instr.Op == token.MUL {
			return symRead(x.arr, x.idx, x.et), true
		}
	}
	return nil, false
}

// symRead builds an ite chain for arr[idx] (scalar integer elements only).
func symRead(arr array, idx symInt, et types.Type) value {
	k := kindOf(et)
	if b, ok := et.Underlying().(*types.Basic); k == types.Invalid || !ok || b.Info()&(types.IsInteger|types.IsBoolean) == 0 {
		// non-scalar elements (strings, structs): fork over the feasible index values
		i := X.concretise(idx)
		if i < 0 || i >= int64(len(arr)) {
			panic(targetPanic{v: iface{t: types.Typ[types.String], v: "index out of range (symbolic)"}})
		}
		return arr[i]
	}
	// bounds: out-of-range index would panic in Go; decide it.
	inb := "(bvult " + resize(idx, types.Uint64).t + " " + bvc(uint64(len(arr)), 64) + ")"
	if !X.decide(inb) {
		panic(targetPanic{v: iface{t: types.Typ[types.String], v: "index out of range (symbolic)"}})
	}
	res := term(arr[len(arr)-1], k)
	for i := len(arr) - 2; i >= 0; i-- {
		res = "(ite (= " + idx.t + " " + bvc(uint64(i), width(idx.k)) + ") " + term(arr[i], k) + " " + res + ")"
	}
	return symInt{res, k}
}

func symConv(t_dst, t_src types.Type, x value) (value, bool) {
	switch x := x.(type) {
	case symInt:
		kd := kindOf(t_dst)
		if b, ok := t_dst.Underlying().(*types.Basic); ok && b.Info()&types.IsInteger != 0 {
			// the source kind may differ from x.k only by name (e.g. rune/int32)
			return resize(x, kd), true
		}
		if kd == types.String {
			// string(r) for an ASCII rune is the one-byte string; other runes need UTF-8 encoding
			if !X.decide("(bvult " + resize(x, types.Uint64).t + " " + bvc(0x80, 64) + ")") {
				panic(unsupported("string(symbolic non-ASCII rune)"))
			}
			return sstring{[]value{resize(x, types.Uint8)}}, true
		}
		panic(unsupported(fmt.Sprintf("conv symInt to %v", t_dst)))
	case sstring:
		if sl, ok := t_dst.Underlying().(*types.Slice); ok {
			if b, ok := sl.Elem().Underlying().(*types.Basic); ok && b.Kind() == types.Int32 {
				// []rune(s): decode; symbolic bytes must be ASCII, concrete ones may be multi-byte
				var out []value
				it := &sstringIter{s: x}
				for {
					t := it.next()
					if !t[0].(bool) {
						break
					}
					out = append(out, t[2])
				}
				return out, true
			}
			return append([]value{}, x.b...), true
		}
		if kindOf(t_dst) == types.String {
			return x, true
		}
	case []value:
		if kindOf(t_dst) == types.String {
			for _, c := range x {
				if _, ok := c.(symInt); ok {
					return sstring{append([]value{}, x...)}, true
				}
			}
		}
	}
	return nil, false
}

// sstringIter ranges over a string with symbolic bytes, assuming ASCII:
// a byte >= 0x80 makes the path unsupported.
type sstringIter struct {
	s sstring
	i int
}

func (it *sstringIter) next() tuple {
	okv := make(tuple, 3)
	if it.i >= len(it.s.b) {
		okv[0] = false
		return okv
	}
	okv[0] = true
	okv[1] = it.i
	// a concrete multi-byte sequence (all of its bytes concrete) decodes as usual
	if c, ok := it.s.b[it.i].(byte); ok && c >= 0x80 {
		var buf []byte
		for j := it.i; j < len(it.s.b) && j < it.i+4; j++ {
			cb, ok := it.s.b[j].(byte)
			if !ok {
				break
			}
			buf = append(buf, cb)
		}
		r, size := utf8.DecodeRune(buf)
		if r == utf8.RuneError && size <= 1 {
			panic(unsupported("invalid or partly symbolic UTF-8 sequence in a string with symbolic bytes"))
		}
		okv[2] = r
		it.i += size
		return okv
	}
	okv[2] = asciiRune(it.s.b[it.i])
	it.i++
	return okv
}

func asciiRune(b value) value {
	switch b := b.(type) {
	case byte:
		if b >= 0x80 {
			panic(unsupported("non-ASCII byte in symbolic string"))
		}
		return rune(b)
	case symInt:
		if !X.decide("(bvult " + b.t + " #x80)") {
			panic(unsupported("non-ASCII byte in symbolic string"))
		}
		return resize(b, types.Int32)
	}
	panic("asciiRune")
}
