package main

// C13 finding 4 (package main, repository root).
//
// augment/find.go:ellipsis decides whether "..." is an elision or a variadic
// marker by checking whether the following identifier is on the same line.
// "M(...\n int)" is legal Go (no semicolon is inserted after "..."), so this
// re-wrapping of a variadic parameter in an interface method turns a working
// patch into a parse error.
import (
	"bytes"
	"fmt"
	"go/ast"
	"go/parser"
	"go/token"
	"os"
	"path/filepath"
	"reflect"
	"testing"
)

func c13h4Run(t *testing.T, patch, src string) (stdout, stderr string, err error) {
	t.Helper()
	dir := t.TempDir()
	file := filepath.Join(dir, "src.go")
	if werr := os.WriteFile(file, []byte(src), 0o644); werr != nil {
		t.Fatal(werr)
	}
	var out, errb bytes.Buffer
	cmd := mainCmd{
		Stdin:  bytes.NewReader([]byte(patch)),
		Stdout: &out,
		Stderr: &errb,
		Getwd:  func() (string, error) { return dir, nil },
	}
	func() {
		defer func() {
			if r := recover(); r != nil {
				err = fmt.Errorf("PANIC: %v", r)
			}
		}()
		err = cmd.Run([]string{"--print-only", file})
	}()
	return out.String(), errb.String(), err
}

// c13h4Syntax renders src as a position-free, comment-free syntax tree dump.
func c13h4Syntax(t *testing.T, src string) string {
	t.Helper()
	f, err := parser.ParseFile(token.NewFileSet(), "out.go", src, parser.SkipObjectResolution)
	if err != nil {
		return "UNPARSEABLE: " + err.Error() + "\n" + src
	}
	posT := reflect.TypeOf(token.NoPos)
	var buf bytes.Buffer
	_ = ast.Fprint(&buf, nil, f, func(name string, v reflect.Value) bool {
		return v.Type() != posT && name != "Obj" && name != "Scope" && name != "Unresolved"
	})
	return buf.String()
}

func TestC13H4_VariadicTypeWrappedAfterEllipsis(t *testing.T) {
	const src = `package a

type I interface {
	M(...int)
}
`
	const oneLine = `@@
@@
-interface{ M(...int) }
+interface{ N(...int) }
`
	const wrapped = `@@
@@
-interface{ M(...
-   int) }
+interface{ N(...
+   int) }
`
	out1, _, err1 := c13h4Run(t, oneLine, src)
	if err1 != nil {
		t.Fatalf("one-line layout failed: %v", err1)
	}
	out2, _, err2 := c13h4Run(t, wrapped, src)
	if err2 != nil {
		t.Fatalf("re-wrapped layout failed although one-line layout produced:\n%s\nerror: %v", out1, err2)
	}
	if c13h4Syntax(t, out1) != c13h4Syntax(t, out2) {
		t.Errorf("results differ syntactically.\n--- one-line:\n%s\n--- wrapped:\n%s", out1, out2)
	}
}
