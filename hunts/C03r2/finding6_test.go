package patch

// Goes in: patch/ (package patch).
//
// C03 finding 6: an identifier pattern replaced by a non-identifier is put
// on the left of ":=" (also in range clauses and type switch guards) where
// only a name may appear, although other name-only positions (parameter
// names, field selectors, labels) are correctly left unchanged.

import (
	"strings"
	"testing"
)

func TestC03H2Finding6_NonNameLeftOfDefine(t *testing.T) {
	const patchSrc = "@@\n@@\n-foo\n+pkg.Bar\n"
	const src = `package p

func g(foo int) {
	foo := 1
	for foo := range ch {
		_ = foo
	}
	use(foo)
}
`
	pf, err := Parse("sel.patch", []byte(patchSrc))
	if err != nil {
		t.Fatal(err)
	}
	out, err := pf.Apply("a.go", []byte(src))
	if err != nil {
		t.Fatal(err)
	}
	got := string(out)
	if !strings.Contains(got, "use(pkg.Bar)") {
		t.Errorf("use(foo) not rewritten:\n%s", got)
	}
	if strings.Contains(got, "pkg.Bar :=") {
		t.Errorf("a selector was placed where only a name may appear (left of :=); the site should have been left unchanged like the parameter name was:\n%s", got)
	}
}
