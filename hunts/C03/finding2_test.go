package patch

// Package directory: patch/   (needs helpers_c03_test.go next to it)
//
// Finding 2: an identifier metavariable in the label position of
// break/continue/goto also "matches" a statement that has NO label. The
// metavariable is then bound to nothing and the '+' side is instantiated with
// a hole: invalid code is written, or gopatch crashes.

import (
	"strings"
	"testing"
)

const c03F2Src = `package p

func f() {
L:
	for {
		for {
			if a {
				break L
			}
		}
		for {
			break
		}
	}
}
`

func TestC03Finding2_AbsentLabelBoundToMetavariable(t *testing.T) {
	const p = "@@\nvar x identifier\n@@\n-break x\n+goto x\n"
	got, err := c03Apply(t, p, c03F2Src)
	if err != nil {
		t.Fatalf("Apply failed: %v", err)
	}
	// "break L" -> "goto L" is right. The plain "break" has no label: there is
	// nothing x could stand for, so it must stay as it is.
	if !strings.Contains(got, "goto L") {
		t.Errorf("labelled site not rewritten:\n%s", got)
	}
	for _, line := range strings.Split(got, "\n") {
		if strings.TrimSpace(line) == "goto" {
			t.Errorf("output contains a goto without a label (x was instantiated with nothing):\n%s", got)
		}
	}
	if !strings.Contains(got, "\t\t\tbreak\n") {
		t.Errorf("plain break was rewritten:\n%s", got)
	}
}

func TestC03Finding2_AbsentLabelUsedAsExpressionCrashes(t *testing.T) {
	const p = "@@\nvar x identifier\n@@\n-break x\n+done(x)\n+break x\n"
	got, err := c03Apply(t, p, c03F2Src)
	if err != nil {
		t.Fatalf("Apply failed: %v", err)
	}
	c03Shape(t, got) // must at least be parseable
	if !strings.Contains(got, "done(L)") {
		t.Errorf("labelled site not rewritten:\n%s", got)
	}
}
