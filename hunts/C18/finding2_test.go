package main

// Goes in the repository root (package main), next to main.go.
//
// C18 (minor): "near-miss spellings ... do not count". go/scanner strips
// every '\r' from the text of a comment, so a header whose bytes are NOT the
// marker ("// Code gene\rrated by x. DO NOT EDIT." / "// @gene\rrated")
// is nevertheless treated as generated and the file is skipped.

import (
	"bytes"
	"os"
	"path/filepath"
	"testing"
)

func TestFindingC18_2_CarriageReturnInsideNearMissMarker(t *testing.T) {
	const patch = "@@\n@@\n-foo()\n+bar()\n"
	const body = "package p\n\nfunc f() {\n\tfoo()\n}\n"

	tests := []struct{ name, header string }{
		{"std_marker_split_by_CR", "// Code gene\rrated by x. DO NOT EDIT.\n"},
		{"at_generated_split_by_CR", "// @gene\rrated\n"},
	}
	for _, tt := range tests {
		t.Run(tt.name, func(t *testing.T) {
			run := func(flag bool) string {
				dir := t.TempDir()
				patchPath := filepath.Join(dir, "p.patch")
				goPath := filepath.Join(dir, "a.go")
				if err := os.WriteFile(patchPath, []byte(patch), 0o644); err != nil {
					t.Fatal(err)
				}
				if err := os.WriteFile(goPath, []byte(tt.header+body), 0o644); err != nil {
					t.Fatal(err)
				}
				var stdout, stderr bytes.Buffer
				cmd := mainCmd{
					Stdin:  bytes.NewReader(nil),
					Stdout: &stdout,
					Stderr: &stderr,
					Getwd:  func() (string, error) { return dir, nil },
				}
				var args []string
				if flag {
					args = append(args, "--skip-generated")
				}
				args = append(args, "-p", patchPath, goPath)
				if err := cmd.Run(args); err != nil {
					t.Fatalf("run: %v", err)
				}
				got, err := os.ReadFile(goPath)
				if err != nil {
					t.Fatal(err)
				}
				return string(got)
			}
			off, on := run(false), run(true)
			if off == tt.header+body {
				t.Fatalf("precondition: patch should apply without the flag")
			}
			if on != off {
				t.Errorf("file has no generated-code marker (only a near miss) but --skip-generated changed the outcome\nwithout flag:\n%q\nwith flag:\n%q", off, on)
			}
		})
	}
}
