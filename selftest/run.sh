#!/bin/bash
# Engine self-test, run by setup_cmd:
#  1. toy harness: a seeded off-by-one must be found by the solver and replay natively; the clean harness must pass;
#  2. translator validation: every testdata (patch, input) pair of /repo is executed concretely inside symgo
#     (real parse -> Compile -> Match -> Replace -> ChangedIntervals) and must give the digest the native build gives.
set -u
cd "$(dirname "$0")/.."
export GOFLAGS=-mod=mod GOPROXY=off GOSUMDB=off GOTOOLCHAIN=local
export VERIF_DIR="$(pwd)" VERIF_REPO="${VERIF_REPO:-/repo}"
out=$(./.build/symgo run -prop T00 -tier quick 2>&1); rc=$?
echo "$out" | tail -3
if [ $rc -ne 1 ] || ! echo "$out" | grep -q "entry=bug panic: runtime error: index out of range \[10\]"; then
  echo "SELFTEST FAILED: toy harness (expected the seeded off-by-one to be found and replayed)"; exit 1
fi
if ! echo "$out" | grep -q "RESULT property=T00 entry=split .* violations(distinct-sampled)=0"; then
  echo "SELFTEST FAILED: toy split harness"; exit 1
fi
if ! echo "$out" | grep -q "RESULT property=T00 entry=arith .*inconclusive=0 .* violations(distinct-sampled)=0"; then
  echo "SELFTEST FAILED: symbolic division/remainder/shift identities"; exit 1
fi
if ! echo "$out" | grep -q "native: assert: x = -94 expected" || ! echo "$out" | grep -q "native: assert: c = 17 expected"; then
  echo "SELFTEST FAILED: division/shift counterexamples must be found and replay natively"; exit 1
fi
if ! echo "$out" | grep -q "native: assert: c = 113 expected"; then
  echo "SELFTEST FAILED: string(symbolic rune)"; exit 1
fi
python3 selftest/t01gen.py || { echo "SELFTEST FAILED: native digests"; exit 1; }
out=$(./.build/symgo run -prop T01 -tier quick 2>&1); rc=$?
echo "$out" | tail -3
if [ $rc -ne 0 ]; then echo "SELFTEST FAILED: translator validation (engine vs native on testdata)"; exit 1; fi
rm -f evidence/T00.json evidence/T01.json
rm -rf replays/T00 replays/T01
echo "SELFTEST OK"
