#!/bin/bash
# usage: tools/seedmatrix.sh [seed-dir-glob]   — runs every kept seeded change against the quick check of its
# property (and of the properties named in meta.json "also") on a scratch worktree of /repo (never /repo itself),
# and prints one line per (seed, check): exit code and first violation line. Worktrees are removed immediately.
set -u
cd "$(dirname "$0")/.."
pat=${1:-seeded/*/}
out=${SEEDMATRIX_OUT:-seeded/MATRIX.tsv}
: > "$out"
for d in $pat; do
  id=$(basename $d); prop=${id%-*}
  also=$(python3 -c "import json;print(' '.join(json.load(open('$d/meta.json')).get('also',[])))" 2>/dev/null)
  wt=$(mktemp -d /tmp/verif-seedwt-XXXX); rmdir $wt
  git -C /repo worktree add -q --detach $wt HEAD || { echo "$id worktree failed"; continue; }
  if ! git -C $wt apply "$(pwd)/$d/patch.diff" 2>/dev/null; then
    echo -e "$id\t-\tPATCH-DOES-NOT-APPLY" | tee -a "$out"
  else
    for p in $prop $also; do
      o=$(SYMGO_NO_EVIDENCE=1 VERIF_REPO=$wt ./check $p quick 2>&1); rc=$?
      first=$(echo "$o" | grep -m1 -A1 "^VIOLATION" | tail -1 | sed 's/^ *//' | cut -c1-160)
      echo -e "$id\t$p\trc=$rc\t$first" | tee -a "$out"
    done
  fi
  git -C /repo worktree remove --force $wt >/dev/null 2>&1
done
