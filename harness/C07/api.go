package patch

import (
	"github.com/uber-go/gopatch/internal/zzverif/nd"
)

// VerifC07API: patch.File.Apply never returns bytes that do not parse.
func VerifC07API() {
	apiAllow.noParse = true
	n := nd.Param("CHANGES", 2)
	apiEnv = apiNewEnv(n)
	e := apiEnv
	got, err := apiFile(e).Apply("f.go", e.src)
	produced := len(got) > 0 && got[0] != 'O'
	if err == nil && produced {
		nd.Assert(e.parses, "API returned text that does not parse")
	}
	anyMatch := false
	for _, m := range e.match {
		anyMatch = nd.Or(anyMatch, m)
	}
	nd.Assert(nd.Implies(nd.And(anyMatch, nd.Not(e.parses)), err != nil), "API: unparseable result not reported")
	nd.Reach("done")
}

func ReplayC07API() { apiNative(nd.Param("CHANGES", 2)) }
