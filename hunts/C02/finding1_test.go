package patch_test

// Goes in: patch/ (package patch_test), i.e. /patch/finding1_test.go
//
// C02: "an 'expression' metavariable [stands] for any single Go expression".
// isExpression() accepts every node that implements ast.Expr, which also
// covers nodes that are not Go expressions: key:value elements of composite
// literals (ast.KeyValueExpr), the "...T" of a variadic parameter and the
// "..." of "[...]T" (ast.Ellipsis), and composite literal elements with an
// elided type ("{1}" inside "[]T{{1}}").

import (
	"go/parser"
	"go/token"
	"testing"

	"github.com/uber-go/gopatch/patch"
)

func applyC02F1(t *testing.T, patchSrc, src string) (string, error) {
	t.Helper()
	p, err := patch.Parse("f1.patch", []byte(patchSrc))
	if err != nil {
		t.Fatalf("patch does not load: %v", err)
	}
	out, err := p.Apply("a.go", []byte(src))
	return string(out), err
}

func TestC02Finding1_ExpressionMetavarBindsNonExpressions(t *testing.T) {
	tests := []struct {
		name  string
		patch string
		src   string
	}{
		{
			name:  "key-value element",
			patch: "@@\nvar x expression\n@@\n-T{x}\n+T{wrap(x)}\n",
			src:   "package a\n\nvar _ = T{a: 1}\n",
		},
		{
			name:  "key-value element, parseable output",
			patch: "@@\nvar x expression\n@@\n-T{x}\n+T{x, x}\n",
			src:   "package a\n\nvar _ = T{a: 1}\n",
		},
		{
			name:  "variadic parameter type",
			patch: "@@\nvar x expression\nvar f, a identifier\n@@\n-func f(a x) {}\n+func f(a []x) {}\n",
			src:   "package a\n\nfunc f2(a ...int) {}\n",
		},
		{
			name:  "array length dots",
			patch: "@@\nvar n expression\n@@\n-[n]int{1}\n+make([]int, n)\n",
			src:   "package a\n\nvar _ = [...]int{1}\n",
		},
		{
			name:  "element with elided type",
			patch: "@@\nvar x expression\n@@\n-[]T{x}\n+[]T{wrap(x)}\n",
			src:   "package a\n\nvar _ = []T{{1}}\n",
		},
	}

	for _, tt := range tests {
		t.Run(tt.name, func(t *testing.T) {
			got, err := applyC02F1(t, tt.patch, tt.src)
			if err != nil {
				t.Fatalf("the metavariable was bound to something that is not an expression "+
					"and the result does not parse: %v", err)
			}
			// None of the fillers is an expression, so nothing may match.
			if got != tt.src {
				_, perr := parser.ParseFile(token.NewFileSet(), "a.go", got, 0)
				t.Errorf("expression metavariable matched a non-expression;\n got:\n%s\nwant (unchanged):\n%s\n(parse error of output: %v)",
					got, tt.src, perr)
			}
		})
	}
}
