#!/usr/bin/env python3
"""Generates /verif/.build/t01/cases_gen.go: all single-patch testdata (patch, input) pairs of /repo,
with the digests computed NATIVELY by the compiled code (go test with an overlay)."""
import os, re, json, subprocess, sys, tempfile
repo = os.environ.get("VERIF_REPO", "/repo")
verif = os.environ.get("VERIF_DIR", "/verif")
td = os.path.join(repo, "testdata")
cases = []
for name in sorted(os.listdir(td)):
    p = os.path.join(td, name)
    if os.path.isdir(p) or name == "README.md":
        continue
    txt = open(p).read()
    parts = re.split(r"^-- (.+?) --\n", txt, flags=re.M)
    files = {parts[i]: parts[i + 1] for i in range(1, len(parts) - 1, 2)}
    patches = [k for k in files if k.endswith(".patch")]
    ins = [k for k in files if k.endswith(".in.go")]
    if len(patches) != 1 or not ins or files[patches[0]].startswith("=>"):
        continue
    for i in ins:
        cases.append((name + "/" + i, files[patches[0]], files[i]))
out = os.path.join(verif, ".build/t01")
os.makedirs(out, exist_ok=True)
def gen(want):
    l = ["package engine", "", "var t01Cases = []t01Case{"]
    for n, p, s in cases:
        l.append("\t{%s, %s, %s}," % (json.dumps(n), json.dumps(p), json.dumps(s)))
    l.append("}")
    l.append("")
    l.append("var t01Want = []string{")
    for w in want:
        l.append("\t%s," % json.dumps(w))
    l.append("}")
    open(os.path.join(out, "cases_gen.go"), "w").write("\n".join(l) + "\n")
gen([])
test = os.path.join(out, "gen_test.go")
open(test, "w").write('''package engine

import (
	"encoding/json"
	"fmt"
	"testing"
)

func TestVerifT01Gen(t *testing.T) {
	b, _ := json.Marshal(T01Digests())
	fmt.Println("T01-DIGESTS " + string(b))
}
''')
ov = {"Replace": {
    os.path.join(repo, "internal/zzverif/nd/nd.go"): os.path.join(verif, "harness/nd/nd.go"),
    os.path.join(repo, "internal/engine/zz_verif_t01.go"): os.path.join(verif, "harness/T01/tv.go"),
    os.path.join(repo, "internal/engine/zz_verif_t01_cases.go"): os.path.join(out, "cases_gen.go"),
    os.path.join(repo, "internal/engine/zz_verif_t01_gen_test.go"): test,
}}
ovf = os.path.join(out, "overlay.json")
json.dump(ov, open(ovf, "w"))
env = dict(os.environ, GOFLAGS="-mod=mod", GOPROXY="off", GOSUMDB="off", GOTOOLCHAIN="local")
r = subprocess.run(["go", "test", "-vet=off", "-count=1", "-v", "-overlay", ovf, "-run", "^TestVerifT01Gen$", "./internal/engine"], cwd=repo, env=env, capture_output=True, text=True)
m = re.search(r"^T01-DIGESTS (.*)$", r.stdout, flags=re.M)
if not m:
    print(r.stdout[-2000:], r.stderr[-2000:])
    sys.exit("native digest generation failed")
want = json.loads(m.group(1))
gen(want)
print("t01: %d cases, %d distinct digests, %d errors/panics" % (len(cases), len(set(want)), sum(1 for w in want if w.endswith("err") or w == "PANIC")))
