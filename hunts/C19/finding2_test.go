package patch

import (
	"regexp"
	"strconv"
	"strings"
	"testing"
)

// C19 finding 2: when a metavariable declaration is cut short at the end of
// the metavariable section ("var x," or "var" as the last declaration), the
// diagnostic is placed at the end of the scratch buffer. That offset has no
// counterpart in the patch file: the reported column lies past the end of the
// reported line (and, with trailing blank lines, on a blank line that is
// neither the declaration nor the closing "@@").
func TestFinding2TruncatedDeclPosition(t *testing.T) {
	tests := []struct {
		desc string
		src  string
	}{
		{
			desc: "dangling comma",
			src:  "@@\nvar x,\n@@\n-foo(x)\n+bar(x)\n",
		},
		{
			desc: "dangling comma then blank line",
			src:  "@@\nvar x,\n\n@@\n-foo(x)\n+bar(x)\n",
		},
		{
			desc: "lone var, second change, comment before @@",
			src: "@@\n@@\n-foo(1)\n+bar(1)\n\n# c\n@ two @\n" +
				"var x expression\nvar\n# c\n@@\n-foo(x)\n+bar(x)\n",
		},
	}

	re := regexp.MustCompile(`p\.patch:(\d+):(\d+): `)
	for _, tt := range tests {
		t.Run(tt.desc, func(t *testing.T) {
			_, err := Parse("p.patch", []byte(tt.src))
			if err == nil {
				t.Fatal("patch must be rejected")
			}
			m := re.FindStringSubmatch(err.Error())
			if m == nil {
				t.Fatalf("diagnostic does not name the patch file: %v", err)
			}
			line, _ := strconv.Atoi(m[1])
			col, _ := strconv.Atoi(m[2])

			lines := strings.Split(tt.src, "\n")
			if line < 1 || line > len(lines) {
				t.Fatalf("line %d does not exist in the patch: %v", line, err)
			}
			// Columns 1..len are the bytes of the line, len+1 is its
			// newline. Anything beyond that is not a position in the file.
			if max := len(lines[line-1]) + 1; col > max {
				t.Errorf("position %d:%d does not exist in the patch file "+
					"(line %d is %q, last column is %d): %v",
					line, col, line, lines[line-1], max, err)
			}
		})
	}
}
