package patch_test

// Finding 2 (C17): goes in directory  patch/  (package patch_test).
//
// File without imports whose package clause has a trailing comment; the patch
// adds an import. The new import declaration is positioned at the end of the
// package line's comment, and the doc comment (or directive) of the first,
// untouched declaration is printed as the trailing comment of the new import.

import (
	"go/ast"
	"go/parser"
	"go/token"
	"strings"
	"testing"

	"github.com/uber-go/gopatch/patch"
)

const addImportPatch = `@@
@@
+import "example.com/pkg"

-foo()
+pkg.Bar()
`

func docOf(t *testing.T, src []byte, name string) string {
	t.Helper()
	fset := token.NewFileSet()
	f, err := parser.ParseFile(fset, "out.go", src, parser.ParseComments)
	if err != nil {
		t.Fatalf("output does not parse: %v\n%s", err, src)
	}
	for _, d := range f.Decls {
		switch d := d.(type) {
		case *ast.FuncDecl:
			if d.Name.Name == name {
				return d.Doc.Text()
			}
		case *ast.GenDecl:
			for _, s := range d.Specs {
				var n string
				var sdoc *ast.CommentGroup
				switch s := s.(type) {
				case *ast.TypeSpec:
					n, sdoc = s.Name.Name, s.Doc
				case *ast.ValueSpec:
					n, sdoc = s.Names[0].Name, s.Doc
				}
				if n == name {
					if d.Doc != nil {
						return d.Doc.Text()
					}
					return sdoc.Text()
				}
			}
		}
	}
	t.Fatalf("declaration %s not found in\n%s", name, src)
	return ""
}

func TestFinding2_DocOfFirstDeclStolenByAddedImport(t *testing.T) {
	const src = `package a // P trailing

// U0 doc line 1
// U0 doc line 2
var U0 = 1

func T1() {
	foo()
}
`
	f, err := patch.Parse("p.patch", []byte(addImportPatch))
	if err != nil {
		t.Fatal(err)
	}
	out, err := f.Apply("a.go", []byte(src))
	if err != nil {
		t.Fatal(err)
	}
	if got, want := docOf(t, out, "U0"), "U0 doc line 1\nU0 doc line 2\n"; got != want {
		t.Errorf("doc comment of untouched U0 = %q, want %q\n%s", got, want, out)
	}
}

func TestFinding2_GoGenerateDirectiveBecomesTrailingComment(t *testing.T) {
	const src = `//go:build linux

package a // import "example.com/a"

//go:generate stringer -type=U0

// U0 doc
type U0 int

func T1() { foo() }
`
	f, err := patch.Parse("p.patch", []byte(addImportPatch))
	if err != nil {
		t.Fatal(err)
	}
	out, err := f.Apply("a.go", []byte(src))
	if err != nil {
		t.Fatal(err)
	}
	// The directive only works at the start of a line.
	if !strings.Contains(string(out), "\n//go:generate stringer -type=U0\n") {
		t.Errorf("//go:generate directive is no longer on a line of its own:\n%s", out)
	}
}
