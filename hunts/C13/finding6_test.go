package main

// C13 finding 6 (package main, repository root). Borderline: line terminators
// are not in the property's list of transformations.
//
// section.go compares header lines byte-for-byte with "@@" after splitting
// on '\n' only, so the same patch saved with CRLF line endings is rejected.
import (
	"bytes"
	"fmt"
	"go/ast"
	"go/parser"
	"go/token"
	"os"
	"path/filepath"
	"reflect"
	"testing"
)

func c13h6Run(t *testing.T, patch, src string) (stdout, stderr string, err error) {
	t.Helper()
	dir := t.TempDir()
	file := filepath.Join(dir, "src.go")
	if werr := os.WriteFile(file, []byte(src), 0o644); werr != nil {
		t.Fatal(werr)
	}
	var out, errb bytes.Buffer
	cmd := mainCmd{
		Stdin:  bytes.NewReader([]byte(patch)),
		Stdout: &out,
		Stderr: &errb,
		Getwd:  func() (string, error) { return dir, nil },
	}
	func() {
		defer func() {
			if r := recover(); r != nil {
				err = fmt.Errorf("PANIC: %v", r)
			}
		}()
		err = cmd.Run([]string{"--print-only", file})
	}()
	return out.String(), errb.String(), err
}

// c13h6Syntax renders src as a position-free, comment-free syntax tree dump.
func c13h6Syntax(t *testing.T, src string) string {
	t.Helper()
	f, err := parser.ParseFile(token.NewFileSet(), "out.go", src, parser.SkipObjectResolution)
	if err != nil {
		return "UNPARSEABLE: " + err.Error() + "\n" + src
	}
	posT := reflect.TypeOf(token.NoPos)
	var buf bytes.Buffer
	_ = ast.Fprint(&buf, nil, f, func(name string, v reflect.Value) bool {
		return v.Type() != posT && name != "Obj" && name != "Scope" && name != "Unresolved"
	})
	return buf.String()
}

func TestC13H6_CRLF(t *testing.T) {
	const src = `package a

func f() {
	foo(a)
}
`
	const lf = "@@\n@@\n-foo(...)\n+bar(...)\n"
	const crlf = "@@\r\n@@\r\n-foo(...)\r\n+bar(...)\r\n"

	out1, _, err1 := c13h6Run(t, lf, src)
	if err1 != nil {
		t.Fatalf("LF layout failed: %v", err1)
	}
	out2, _, err2 := c13h6Run(t, crlf, src)
	if err2 != nil {
		t.Fatalf("CRLF layout failed although LF layout produced:\n%s\nerror: %v", out1, err2)
	}
	if c13h6Syntax(t, out1) != c13h6Syntax(t, out2) {
		t.Errorf("results differ")
	}
}
