package main

// C13 finding 3 (package main, repository root).
//
// "..." never triggers Go's automatic semicolon insertion (f(a,\n b...\n) is
// legal Go), but gopatch substitutes the identifier "dts" for it before
// calling go/parser, and an identifier at the end of a line does. Re-wrapping
// "foo(a, ...)" so that the elision is the last thing on its own line turns a
// working patch into a parse error that mentions the synthetic file.
import (
	"bytes"
	"fmt"
	"go/ast"
	"go/parser"
	"go/token"
	"os"
	"path/filepath"
	"reflect"
	"testing"
)

func c13h3Run(t *testing.T, patch, src string) (stdout, stderr string, err error) {
	t.Helper()
	dir := t.TempDir()
	file := filepath.Join(dir, "src.go")
	if werr := os.WriteFile(file, []byte(src), 0o644); werr != nil {
		t.Fatal(werr)
	}
	var out, errb bytes.Buffer
	cmd := mainCmd{
		Stdin:  bytes.NewReader([]byte(patch)),
		Stdout: &out,
		Stderr: &errb,
		Getwd:  func() (string, error) { return dir, nil },
	}
	func() {
		defer func() {
			if r := recover(); r != nil {
				err = fmt.Errorf("PANIC: %v", r)
			}
		}()
		err = cmd.Run([]string{"--print-only", file})
	}()
	return out.String(), errb.String(), err
}

// c13h3Syntax renders src as a position-free, comment-free syntax tree dump.
func c13h3Syntax(t *testing.T, src string) string {
	t.Helper()
	f, err := parser.ParseFile(token.NewFileSet(), "out.go", src, parser.SkipObjectResolution)
	if err != nil {
		return "UNPARSEABLE: " + err.Error() + "\n" + src
	}
	posT := reflect.TypeOf(token.NoPos)
	var buf bytes.Buffer
	_ = ast.Fprint(&buf, nil, f, func(name string, v reflect.Value) bool {
		return v.Type() != posT && name != "Obj" && name != "Scope" && name != "Unresolved"
	})
	return buf.String()
}

func TestC13H3_ElisionLastOnItsOwnLine(t *testing.T) {
	const src = `package a

func f() {
	foo(a, b, c)
}
`
	const oneLine = `@@
@@
-foo(a, ...)
+bar(a, ...)
`
	const wrapped = `@@
@@
-foo(
-  a,
-  ...
-)
+bar(
+  a,
+  ...
+)
`
	out1, _, err1 := c13h3Run(t, oneLine, src)
	if err1 != nil {
		t.Fatalf("one-line layout failed: %v", err1)
	}
	out2, _, err2 := c13h3Run(t, wrapped, src)
	if err2 != nil {
		t.Fatalf("re-wrapped layout failed although one-line layout produced:\n%s\nerror: %v", out1, err2)
	}
	if c13h3Syntax(t, out1) != c13h3Syntax(t, out2) {
		t.Errorf("results differ syntactically.\n--- one-line:\n%s\n--- wrapped:\n%s", out1, out2)
	}
}
