#!/bin/bash
# usage: tools/seedtry.sh <patch.diff> <Cxx> [more props...] [quick|thorough]
# runs the checks against a scratch worktree of /repo with the change applied (never /repo itself);
# evidence files are not rewritten by these runs.
set -u
cd "$(dirname "$0")/.."
pd=$(readlink -f "$1"); shift
tier=quick; props=()
for a in "$@"; do case "$a" in quick|thorough) tier=$a;; *) props+=("$a");; esac; done
wt=$(mktemp -d /tmp/verif-seedwt-XXXX); rmdir $wt
git -C /repo worktree add -q --detach $wt HEAD || exit 2
trap 'git -C /repo worktree remove --force $wt >/dev/null 2>&1' EXIT
git -C $wt apply "$pd" || { echo "PATCH DOES NOT APPLY"; exit 2; }
for p in "${props[@]}"; do
  out=$(SYMGO_NO_EVIDENCE=1 VERIF_REPO=$wt ./check $p $tier 2>&1); rc=$?
  echo "== $p $tier rc=$rc"
  echo "$out" | grep -E "^(VIOLATION|  entry=|ENGINE-DISAGREEMENT|INCONCLUSIVE|  INCONCLUSIVE|    first|ERROR|UNREPLAYABLE|SUMMARY)" | cut -c1-330 | head -12
done
