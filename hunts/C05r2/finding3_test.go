package patch

// Finding 3 (C05): a one-line expression patch deletes the trailing comment of
// the line *above* a rewritten expression, when the rewritten expression is
// the leftmost thing on its line: the comment after "case x:" when the first
// statement of the clause is "return <match>" or "v = <match>", and the
// comment after the previous row of a table when the first element of a row
// is the match. The rows/lines are also joined.
//
// Goes in directory: patch/

import (
	"strings"
	"testing"
)

func TestFinding3_CaseHeaderCommentDeleted(t *testing.T) {
	const patch = `@@
@@
-0
+zero
`
	const src = `package a

func f(x int) int {
	switch {
	case x > 1: // big values
		return 0
	case x < -5: // negative values
		x = 0
	}
	return x
}
`
	p, err := Parse("p.patch", []byte(patch))
	if err != nil {
		t.Fatal(err)
	}
	outb, err := p.Apply("a.go", []byte(src))
	if err != nil {
		t.Fatal(err)
	}
	out := string(outb)
	for _, c := range []string{"// big values", "// negative values"} {
		if !strings.Contains(out, c) {
			t.Errorf("comment %q on the untouched case header was deleted:\n%s", c, out)
		}
	}
}

func TestFinding3_PreviousTableRowCommentDeleted(t *testing.T) {
	const patch = `@@
@@
-""
+empty
`
	const src = `package a

var tests = []struct {
	k, v string
	ok   bool
}{
	{"name", "value", true}, // plain
	{"", "v", false},        // key must be non-empty
	{"k", "", true},         // value may be empty
}
`
	p, err := Parse("p.patch", []byte(patch))
	if err != nil {
		t.Fatal(err)
	}
	outb, err := p.Apply("a.go", []byte(src))
	if err != nil {
		t.Fatal(err)
	}
	out := string(outb)
	// The first row contains no "": nothing in it is rewritten.
	if !strings.Contains(out, "// plain") {
		t.Errorf("comment of the untouched first row was deleted:\n%s", out)
	}
}
