package main

// Goes into the repository root (package main).
//
// C16: "Whenever a requested path, patch or file could not be processed the
// exit status is non-zero and stderr names the path and the cause".
//
// A path that the user names on the command line, that exists, and that
// gopatch decides not to look at is dropped without any message and with
// exit status 0.

import (
	"bytes"
	"os"
	"path/filepath"
	"testing"
)

const finding1Src = "package a\n\nfunc f() {\n\tfoo()\n}\n"
const finding1Patch = "@@\n@@\n-foo()\n+bar()\n"

func TestFinding1_RequestedPathSilentlyIgnored(t *testing.T) {
	type setup struct {
		name string
		// prepares files under root, returns (cwd, pattern, file that should get patched)
		prep func(t *testing.T, root string) (cwd, pattern, target string)
	}

	write := func(t *testing.T, path, body string) {
		t.Helper()
		if err := os.MkdirAll(filepath.Dir(path), 0o755); err != nil {
			t.Fatal(err)
		}
		if err := os.WriteFile(path, []byte(body), 0o644); err != nil {
			t.Fatal(err)
		}
	}

	tests := []setup{
		{
			name: "symlink to a Go file",
			prep: func(t *testing.T, root string) (string, string, string) {
				write(t, filepath.Join(root, "a.go"), finding1Src)
				if err := os.Symlink("a.go", filepath.Join(root, "link.go")); err != nil {
					t.Skip(err)
				}
				return root, "link.go", filepath.Join(root, "a.go")
			},
		},
		{
			name: "explicitly requested directory named testdata",
			prep: func(t *testing.T, root string) (string, string, string) {
				write(t, filepath.Join(root, "testdata", "t.go"), finding1Src)
				return root, "testdata", filepath.Join(root, "testdata", "t.go")
			},
		},
		{
			name: "explicitly requested directory named _examples",
			prep: func(t *testing.T, root string) (string, string, string) {
				write(t, filepath.Join(root, "_examples", "t.go"), finding1Src)
				return root, "./_examples/...", filepath.Join(root, "_examples", "t.go")
			},
		},
		{
			name: "dot-dot-dot inside a working directory named _work",
			prep: func(t *testing.T, root string) (string, string, string) {
				write(t, filepath.Join(root, "_work", "t.go"), finding1Src)
				return filepath.Join(root, "_work"), "./...", filepath.Join(root, "_work", "t.go")
			},
		},
		{
			name: "dot inside a working directory named vendor",
			prep: func(t *testing.T, root string) (string, string, string) {
				write(t, filepath.Join(root, "vendor", "t.go"), finding1Src)
				return filepath.Join(root, "vendor"), ".", filepath.Join(root, "vendor", "t.go")
			},
		},
		{
			name: "regular file without .go suffix",
			prep: func(t *testing.T, root string) (string, string, string) {
				write(t, filepath.Join(root, "gen.go.txt"), finding1Src)
				return root, "gen.go.txt", filepath.Join(root, "gen.go.txt")
			},
		},
	}

	for _, tt := range tests {
		tt := tt
		t.Run(tt.name, func(t *testing.T) {
			root := t.TempDir()
			patch := filepath.Join(root, "p.patch")
			write(t, patch, finding1Patch)
			cwd, pattern, target := tt.prep(t, root)

			var stdout, stderr bytes.Buffer
			cmd := &mainCmd{
				Stdin:  new(bytes.Buffer),
				Stdout: &stdout,
				Stderr: &stderr,
				Getwd:  func() (string, error) { return cwd, nil },
			}
			err := cmd.Run([]string{"-p", patch, pattern})

			got, rerr := os.ReadFile(target)
			if rerr != nil {
				t.Fatal(rerr)
			}
			patched := bytes.Contains(got, []byte("bar()"))

			// Either the requested path is processed, or the run must fail
			// and say why. Neither happens.
			if err == nil && !patched {
				t.Errorf("requested path %q (cwd %q) was not processed, "+
					"yet Run returned nil (exit status 0) and stderr is %q",
					pattern, cwd, stderr.String())
			}
		})
	}
}
