package patch

// C14 (immutability): a parsed patch is not modified by applying it. After
// patch.Parse every object reachable from the *File - the compiled program
// with its matchers, replacers, elision associations, metavariable tables,
// descriptions, and the File value itself - is frozen; the shared
// token.FileSet is exempt (it is internally locked and meant to grow). Any
// store into a frozen object during Apply is a violation: no writes means
// concurrent Apply calls on one parsed patch cannot interfere through it.
// Runs over the C17 catalogue (site names symbolic, so every subset of
// rewritten sites is covered) and applies the patch to two files in a row.

import (
	"crypto/sha256"
	"fmt"
	"go/ast"
	"go/parser"
	"go/token"
	"reflect"
	"sort"

	"github.com/uber-go/gopatch/internal/zzverif/nd"
)

func VerifC14Immutable() {
	cs := c17Cases[nd.Choose("case", len(c17Cases))]
	pf, err := Parse("p.patch", []byte(cs.patch))
	if err != nil {
		panic("harness: catalogue patch is rejected: " + cs.name + ": " + err.Error())
	}
	nd.FreezeExcept(pf, pf.fset)
	c17 = &c17State{cs: cs}
	_, err = pf.Apply("a.go", []byte(cs.src))
	nd.Assert(err == nil, cs.name+": Apply failed")
	// a second file through the same parsed patch
	c17 = &c17State{cs: cs}
	_, err = pf.Apply("b.go", []byte(cs.src))
	nd.Assert(err == nil, cs.name+": second Apply failed")
	nd.Thaw()
	nd.Reach("done")
}

// ReplayC14Immutable confirms a freeze violation natively: a structural
// digest of the parsed patch (everything but the FileSet) taken before the
// two Apply calls must equal the digest taken after them.
func ReplayC14Immutable() {
	cs := c17Cases[nd.Choose("case", len(c17Cases))]
	pf, err := Parse("p.patch", []byte(cs.patch))
	if err != nil {
		panic(err)
	}
	before := c14Digest(pf)
	var last []byte
	for _, name := range []string{"a.go", "b.go"} {
		src := func() (out []byte) {
			// the symbolic run may have stopped in the first Apply: reuse the first file then
			defer func() {
				if recover() != nil {
					out = last
				}
			}()
			return c14Source(cs)
		}()
		last = src
		if _, err := pf.Apply(name, src); err != nil {
			nd.Fail(cs.name + ": Apply failed: " + err.Error())
			return
		}
	}
	if after := c14Digest(pf); after != before {
		nd.Fail(cs.name + ": the parsed patch was modified by applying it (state reachable from *patch.File differs before and after Apply)")
	}
}

// c14Source writes the model's site names into the catalogue source.
func c14Source(cs c17Case) []byte {
	fset := token.NewFileSet()
	f, err := parser.ParseFile(fset, "a.go", cs.src, parser.ParseComments)
	if err != nil {
		panic(err)
	}
	tf := fset.File(f.Pos())
	src := []byte(cs.src)
	k := 0
	for _, d := range f.Decls {
		ast.Inspect(d, func(n ast.Node) bool {
			if id, ok := n.(*ast.Ident); ok && id.Name == cs.marker {
				s := nd.Str(fmt.Sprintf("site%d", k), len(id.Name))
				k++
				copy(src[tf.Offset(id.Pos()):], s)
			}
			return true
		})
	}
	return src
}

func c14Digest(pf *File) string {
	h := sha256.New()
	seen := map[uintptr]bool{}
	fsetT := reflect.TypeOf((*token.FileSet)(nil))
	var walk func(v reflect.Value, depth int)
	walk = func(v reflect.Value, depth int) {
		if !v.IsValid() || depth > 200 {
			return
		}
		fmt.Fprintf(h, "%s|", v.Kind())
		switch v.Kind() {
		case reflect.Ptr:
			if v.IsNil() || v.Type() == fsetT {
				return
			}
			if seen[v.Pointer()] {
				return
			}
			seen[v.Pointer()] = true
			walk(v.Elem(), depth+1)
		case reflect.Interface:
			if !v.IsNil() {
				fmt.Fprintf(h, "%s|", v.Elem().Type())
				walk(v.Elem(), depth+1)
			}
		case reflect.Struct:
			for i := 0; i < v.NumField(); i++ {
				walk(v.Field(i), depth+1)
			}
		case reflect.Slice, reflect.Array:
			fmt.Fprintf(h, "%d|", v.Len())
			for i := 0; i < v.Len(); i++ {
				walk(v.Index(i), depth+1)
			}
		case reflect.Map:
			var keys []string
			byKey := map[string]reflect.Value{}
			for _, k := range v.MapKeys() {
				s := fmt.Sprintf("%#v", k)
				keys = append(keys, s)
				byKey[s] = v.MapIndex(k)
			}
			sort.Strings(keys)
			for _, k := range keys {
				fmt.Fprintf(h, "%s=", k)
				walk(byKey[k], depth+1)
			}
		case reflect.String:
			fmt.Fprintf(h, "%q|", v.String())
		case reflect.Bool:
			fmt.Fprintf(h, "%v|", v.Bool())
		case reflect.Int, reflect.Int8, reflect.Int16, reflect.Int32, reflect.Int64:
			fmt.Fprintf(h, "%d|", v.Int())
		case reflect.Uint, reflect.Uint8, reflect.Uint16, reflect.Uint32, reflect.Uint64, reflect.Uintptr:
			fmt.Fprintf(h, "%d|", v.Uint())
		}
	}
	walk(reflect.ValueOf(pf), 0)
	return fmt.Sprintf("%x", h.Sum(nil))
}
