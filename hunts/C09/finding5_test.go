package main

import (
	"bytes"
	"fmt"
	"go/ast"
	"go/format"
	"go/parser"
	"go/token"
	"os"
	"path/filepath"
	"strings"
	"testing"

	"golang.org/x/tools/go/ast/astutil"
)

// Finding 5 (C09, comments only - outside the "syntax tree" observation, but a
// visible difference in the produced file): "a change that does not match [the
// same code] ... does not disturb the others".
//
// After the first change of a run, astdiff.Snapshot.Diff builds the next
// snapshot without the comment map (snapshot(v, nil)) and only copies the
// comments of the top-most unchanged nodes, so for later changes the regions
// are no longer clamped to neighbouring comments: a later change deletes a
// comment that it keeps when it runs on its own / in a separate run.
func TestC09Finding5_CommentLostOnlyInCombinedRun(t *testing.T) {
	const src = `package a

func g() {
	other(1)
}

func f() (int, error) {
	v, err := get() // trailing get
	if err != nil {
		return 0, err
	}
	return v, nil
}
`
	const p1 = `@@
@@
-other(1)
+other(2)
`
	const p2 = `@@
var v, err identifier
var f expression
@@
-v, err := f
-if err != nil {
-  return 0, err
-}
+v := must(f)
`
	comb := c09CombinedF5(t, src, p1, p2)
	chain := c09ChainF5(t, src, p1, p2)
	if comb.err != nil || chain.err != nil {
		t.Fatalf("unexpected failure: combined=%v chain=%v", comb.err, chain.err)
	}
	if c09NormF5(t, comb.out) != c09NormF5(t, chain.out) {
		t.Fatalf("code differs too:\n%s\n---\n%s", comb.out, chain.out)
	}
	inChain := strings.Contains(chain.out, "// trailing get")
	inComb := strings.Contains(comb.out, "// trailing get")
	if inChain != inComb {
		t.Errorf("C09 violated (comments): comment kept by the chain of runs = %v, kept by the combined run = %v\n"+
			"--- combined run:\n%s\n--- chain of runs:\n%s", inChain, inComb, comb.out, chain.out)
	}
}

// ---- helper (self-contained; names are suffixed with F5 so that all
// findingN_test.go files can live side by side in package main) ----

type c09RunF5 struct {
	out string // resulting file contents
	err error  // error returned by mainCmd.Run (first failing step for a chain)
}

func c09WriteF5(t *testing.T, path, content string) {
	t.Helper()
	if err := os.MkdirAll(filepath.Dir(path), 0o755); err != nil {
		t.Fatal(err)
	}
	if err := os.WriteFile(path, []byte(content), 0o644); err != nil {
		t.Fatal(err)
	}
}

func c09GopatchF5(dir string, args ...string) error {
	var stdout, stderr bytes.Buffer
	cmd := mainCmd{
		Stdin:  strings.NewReader(""),
		Stdout: &stdout,
		Stderr: &stderr,
		Getwd:  func() (string, error) { return dir, nil },
	}
	return cmd.Run(args)
}

// c09CombinedF5 runs gopatch ONCE with all the patches, in order.
func c09CombinedF5(t *testing.T, src string, patches ...string) c09RunF5 {
	t.Helper()
	dir := t.TempDir()
	c09WriteF5(t, filepath.Join(dir, "x.go"), src)
	var args []string
	for i, p := range patches {
		pp := filepath.Join(dir, fmt.Sprintf("%d.patch", i))
		c09WriteF5(t, pp, p)
		args = append(args, "-p", pp)
	}
	err := c09GopatchF5(dir, append(args, "x.go")...)
	got, rerr := os.ReadFile(filepath.Join(dir, "x.go"))
	if rerr != nil {
		t.Fatal(rerr)
	}
	return c09RunF5{out: string(got), err: err}
}

// c09ChainF5 runs gopatch once per patch, each run starting from the file
// that the previous run produced. It stops at the first failing step.
func c09ChainF5(t *testing.T, src string, patches ...string) c09RunF5 {
	t.Helper()
	dir := t.TempDir()
	c09WriteF5(t, filepath.Join(dir, "x.go"), src)
	var firstErr error
	for i, p := range patches {
		pp := filepath.Join(dir, fmt.Sprintf("%d.patch", i))
		c09WriteF5(t, pp, p)
		if err := c09GopatchF5(dir, "-p", pp, "x.go"); err != nil {
			firstErr = err
			break
		}
	}
	got, rerr := os.ReadFile(filepath.Join(dir, "x.go"))
	if rerr != nil {
		t.Fatal(rerr)
	}
	return c09RunF5{out: string(got), err: firstErr}
}

// c09NormF5 renders src as a syntax tree with comments dropped and
// parenthesis nodes elided, with all white space removed.
func c09NormF5(t *testing.T, src string) string {
	t.Helper()
	fset := token.NewFileSet()
	f, err := parser.ParseFile(fset, "x.go", src, 0)
	if err != nil {
		t.Fatalf("output is not valid Go: %v\n%s", err, src)
	}
	astutil.Apply(f, nil, func(c *astutil.Cursor) bool {
		if p, ok := c.Node().(*ast.ParenExpr); ok {
			c.Replace(p.X)
		}
		return true
	})
	var b bytes.Buffer
	if err := format.Node(&b, fset, f); err != nil {
		t.Fatal(err)
	}
	return strings.Join(strings.Fields(b.String()), "")
}
