package patch

// Directory: patch/ (package patch). Needs helpers_c11_test.go.
//
// Finding 3: a metavariable-named import that matches an unnamed import is
// assumed to be referred to by the metavariable's own name. The import on
// the '+' line is then absent afterwards, and the still-used import is lost.

import "testing"

func TestC11Finding3_PlusImportAbsentAfterwards(t *testing.T) {
	c11Check(t, `@@
var foo identifier
@@
-import foo "example.com/lib"
+import "example.com/lib"

-a()
+b()
`, `package x

import "example.com/lib"

func f() {
	a()
	lib.Do()
}
`, `"example.com/lib"`)
}
