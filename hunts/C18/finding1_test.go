package main

// Goes in the repository root (package main), next to main.go.
//
// C18: a file whose package comment contains "@generated" must be left
// completely untouched with --skip-generated. A "//line" directive as the
// last line of that package comment (legal Go, and typical of generated
// code) makes go/parser compute the "lead comment" adjacency with the
// *adjusted* line numbers, so ast.File.Doc is nil, checkGeneratedCode says
// "not generated", and the file is rewritten.

import (
	"bytes"
	"os"
	"path/filepath"
	"testing"
)

func TestFindingC18_1_LineDirectiveInPackageComment(t *testing.T) {
	const patch = "# rename foo\n@@\n@@\n-foo()\n+bar()\n"
	const body = "package p\n\nfunc f() {\n\tfoo()\n}\n"

	tests := []struct{ name, header string }{
		// control: passes on the current tree
		{"control_no_directive", "// Package p is produced by a tool.\n// @generated\n"},
		// violations
		{"line_directive_file_line", "// Package p is produced by a tool.\n// @generated\n//line p.y:100\n"},
		{"line_directive_line_only", "// Package p is produced by a tool.\n// @generated\n//line :100\n"},
		{"line_directive_then_doc", "// @generated\n//line p.y:100\n// Package p is produced by a tool.\n"},
	}
	for _, tt := range tests {
		for _, mode := range [][]string{nil, {"-d"}, {"--print-only"}} {
			name := tt.name
			if mode != nil {
				name += "/" + mode[0]
			}
			t.Run(name, func(t *testing.T) {
				dir := t.TempDir()
				patchPath := filepath.Join(dir, "p.patch")
				goPath := filepath.Join(dir, "a.go")
				src := tt.header + body
				if err := os.WriteFile(patchPath, []byte(patch), 0o644); err != nil {
					t.Fatal(err)
				}
				if err := os.WriteFile(goPath, []byte(src), 0o644); err != nil {
					t.Fatal(err)
				}

				var stdout, stderr bytes.Buffer
				cmd := mainCmd{
					Stdin:  bytes.NewReader(nil),
					Stdout: &stdout,
					Stderr: &stderr,
					Getwd:  func() (string, error) { return dir, nil },
				}
				args := append([]string{"--skip-generated"}, mode...)
				args = append(args, "-p", patchPath, goPath)
				if err := cmd.Run(args); err != nil {
					t.Fatalf("run: %v", err)
				}

				got, err := os.ReadFile(goPath)
				if err != nil {
					t.Fatal(err)
				}
				if string(got) != src {
					t.Errorf("generated file was rewritten:\n%s", got)
				}
				if stdout.Len() != 0 {
					t.Errorf("generated file produced output on stdout:\n%s", stdout.String())
				}
				if stderr.Len() != 0 {
					t.Errorf("generated file produced a description on stderr:\n%s", stderr.String())
				}
			})
		}
	}
}
