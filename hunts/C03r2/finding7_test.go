package patch

// Goes in: patch/ (package patch).
//
// C03 finding 7 (elision): "case ...:" whose "..." stands for nothing is
// turned into "default:".

import (
	"strings"
	"testing"
)

func TestC03H2Finding7_CaseListEmptiedBecomesDefault(t *testing.T) {
	const patchSrc = "@@\nvar s expression\n@@\n switch s {\n-case ..., foo:\n+case ...:\n   ...\n }\n"
	const src = `package p

func a() {
	switch s {
	case foo:
		second()
	}
}
`
	pf, err := Parse("case.patch", []byte(patchSrc))
	if err != nil {
		t.Fatal(err)
	}
	out, err := pf.Apply("a.go", []byte(src))
	if err != nil {
		return // reporting it, as for an assignment left without operands, is fine
	}
	if strings.Contains(string(out), "default:") {
		t.Errorf("'case :' is not admissible; the clause was silently turned into 'default:':\n%s", out)
	}
}
