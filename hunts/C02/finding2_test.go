package patch_test

// Goes in: patch/ (package patch_test), i.e. /patch/finding2_test.go
//
// C02: a name declared in the @@ section is a metavariable wherever it
// occurs in the '-' pattern; only "names not declared in the @@ section are
// ordinary code and match only themselves", and "when a metavariable occurs
// more than once in the '-' pattern, the change applies only where all
// occurrences stand for syntactically identical code".
//
// FileMatcher.Match compares the package clause of the patch as a plain
// string (m.Package != file.Name.Name), so a declared identifier
// metavariable used in the package clause is taken literally and is not
// tied to its other occurrences.

import (
	"strings"
	"testing"

	"github.com/uber-go/gopatch/patch"
)

func TestC02Finding2_MetavarInPackageClauseIsLiteral(t *testing.T) {
	p, err := patch.Parse("f2.patch", []byte(
		"@@\nvar p identifier\n@@\n package p\n\n-foo()\n+bar()\n"))
	if err != nil {
		t.Fatal(err)
	}

	src := "package a\n\nfunc f() {\n\tfoo()\n}\n"
	out, err := p.Apply("a.go", []byte(src))
	if err != nil {
		t.Fatal(err)
	}
	if !strings.Contains(string(out), "bar()") {
		t.Errorf("identifier metavariable p in the package clause did not stand for package name %q; output:\n%s", "a", out)
	}
}

func TestC02Finding2_MetavarInPackageClauseNotTiedToBody(t *testing.T) {
	p, err := patch.Parse("f2.patch", []byte(
		"@@\nvar p identifier\n@@\n package p\n\n-foo(p)\n+bar(p)\n"))
	if err != nil {
		t.Fatal(err)
	}

	// The first occurrence of p (package clause) stands for "p"; foo(z)
	// would need p to stand for "z" at the same time.
	src := "package p\n\nfunc f() {\n\tfoo(z)\n\tfoo(p)\n}\n"
	want := "package p\n\nfunc f() {\n\tfoo(z)\n\tbar(p)\n}\n"
	out, err := p.Apply("a.go", []byte(src))
	if err != nil {
		t.Fatal(err)
	}
	if string(out) != want {
		t.Errorf("occurrences of p in the package clause and in the body were bound independently;\n got:\n%s\nwant:\n%s", out, want)
	}
}
