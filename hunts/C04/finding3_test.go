package patch

// Finding 3 (C04): two adjacent elisions. findSection treats an empty section
// as "the '...' at the end of the list" and consumes the whole rest of the
// list, so a pattern with two neighbouring '...' (very commonly: an explicit
// leading '...' in a statement patch, which sits next to the implicit leading
// elision) never matches anything.
//
// Goes in: patch/ (package patch). Uses applyC04 from finding1_test.go.

import (
	"strings"
	"testing"
)

func TestFinding3_ExplicitLeadingDotsInStatementPatch(t *testing.T) {
	src := "package p\n\nfunc f() {\n\ta()\n\tfoo()\n\tb()\n}\n"

	// Control: explicit trailing '...' works.
	got, err := applyC04(t, "@@\n@@\n-foo()\n+bar()\n ...\n", src)
	if err != nil {
		t.Fatal(err)
	}
	if !strings.Contains(got, "bar()") {
		t.Fatalf("control case not rewritten:\n%s", got)
	}

	got, err = applyC04(t, "@@\n@@\n ...\n-foo()\n+bar()\n", src)
	if err != nil {
		t.Fatal(err)
	}
	if !strings.Contains(got, "bar()") || !strings.Contains(got, "a()") || !strings.Contains(got, "b()") {
		t.Errorf("explicit leading '...' prevents the match; got:\n%s", got)
	}
}

func TestFinding3_BracedStatementPatch(t *testing.T) {
	patch := "@@\n@@\n {\n   ...\n-  foo()\n+  bar()\n }\n"
	got, err := applyC04(t, patch, "package p\n\nfunc f() {\n\ta()\n\tfoo()\n}\n")
	if err != nil {
		t.Fatal(err)
	}
	if !strings.Contains(got, "bar()") {
		t.Errorf("no match; got:\n%s", got)
	}
}

func TestFinding3_AdjacentDotsInArgumentList(t *testing.T) {
	patch := "@@\n@@\n-f(..., ..., x)\n+g(x)\n"
	got, err := applyC04(t, patch, "package p\n\nfunc _() {\n\tf(1, 2, x)\n}\n")
	if err != nil {
		t.Fatal(err)
	}
	if !strings.Contains(got, "g(x)") {
		t.Errorf("no match; got:\n%s", got)
	}
}

func TestFinding3_InsertBetweenTwoElisions(t *testing.T) {
	patch := "@@\n@@\n a()\n ...\n+foo()\n ...\n b()\n"
	got, err := applyC04(t, patch, "package p\n\nfunc f() {\n\ta()\n\tm()\n\tn()\n\tb()\n}\n")
	if err != nil {
		t.Fatal(err)
	}
	// shortest run first, left to right: foo() goes right after a().
	if !strings.Contains(got, "foo()") {
		t.Errorf("no match; got:\n%s", got)
	}
	for _, want := range []string{"a()", "m()", "n()", "b()"} {
		if !strings.Contains(got, want) {
			t.Errorf("%s lost; got:\n%s", want, got)
		}
	}
}
