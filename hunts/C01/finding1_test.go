package patch

// Finding 1 (property C01): a statement-pattern instance that is a direct
// child of a block belonging to another (enclosing) rewritten instance is
// matched, rewritten, and then the rewrite is thrown away.
//
// Place this file in the directory  patch/  (package patch) and run
//   go test ./patch/ -run TestFinding1

import (
	"strings"
	"testing"
)

const finding1Patch = `@@
var x expression
@@
-if x == true {
+if x {
   ...
 }
`

func apply(t *testing.T, patch, src string) string {
	t.Helper()
	f, err := Parse("p.patch", []byte(patch))
	if err != nil {
		t.Fatalf("parse patch: %v", err)
	}
	out, err := f.Apply("a.go", []byte(src))
	if err != nil {
		t.Fatalf("apply: %v", err)
	}
	return string(out)
}

// The inner "if b == true {...}" is the first (only) instance of the pattern
// in the block "{ if b == true {...} }", so it must be rewritten.
func TestFinding1_NestedIfDirectChild(t *testing.T) {
	src := `package p

func f() {
	if a == true {
		if b == true {
			foo()
		}
	}
}
`
	got := apply(t, finding1Patch, src)
	if strings.Contains(got, "b == true") {
		t.Errorf("inner instance was not rewritten:\n%s", got)
	}
}

// Control: the very same inner statement IS rewritten as soon as the
// enclosing "if" is not itself an instance ...
func TestFinding1_ControlOuterNotInstance(t *testing.T) {
	src := `package p

func f() {
	if a {
		if b == true {
			foo()
		}
	}
}
`
	got := apply(t, finding1Patch, src)
	if strings.Contains(got, "b == true") {
		t.Errorf("inner instance was not rewritten:\n%s", got)
	}
}

// ... or as soon as it sits one level deeper inside the enclosing instance.
func TestFinding1_ControlDeeper(t *testing.T) {
	src := `package p

func f() {
	if a == true {
		for {
			if b == true {
				foo()
			}
		}
	}
}
`
	got := apply(t, finding1Patch, src)
	if strings.Contains(got, "b == true") || strings.Contains(got, "a == true") {
		t.Errorf("instances were not rewritten:\n%s", got)
	}
}

// Same defect through a metavariable: the block of the function literal is
// inside the expression captured by f, whose snapshot (taken before the
// inner replacement) is what the outer replacement reproduces.
func TestFinding1_InsideMetavariable(t *testing.T) {
	patch := `@@
var f expression
var x identifier
@@
 x := f
-foo(x)
+bar(x)
`
	src := `package p

func g() {
	h := func() {
		y := 1
		foo(y)
	}
	foo(h)
}
`
	got := apply(t, patch, src)
	if strings.Contains(got, "foo(y)") {
		t.Errorf("instance in the function literal's block was not rewritten:\n%s", got)
	}
}
