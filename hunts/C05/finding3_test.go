package main

// C05 finding 3: an *expression* patch rewrites the package clause, an import
// alias / import path, a label, a struct field name and a struct tag, none of
// which are expressions. Goes in the repository root (package main).

import (
	"bytes"
	"go/ast"
	"go/parser"
	"go/token"
	"os"
	"path/filepath"
	"strings"
	"testing"
)

func runGopatchF3(t *testing.T, patch, src string) (string, *ast.File) {
	t.Helper()
	dir := t.TempDir()
	pp := filepath.Join(dir, "p.patch")
	gp := filepath.Join(dir, "a.go")
	if err := os.WriteFile(pp, []byte(patch), 0o644); err != nil {
		t.Fatal(err)
	}
	if err := os.WriteFile(gp, []byte(src), 0o644); err != nil {
		t.Fatal(err)
	}
	var stdout, stderr bytes.Buffer
	cmd := &mainCmd{Stdin: strings.NewReader(""), Stdout: &stdout, Stderr: &stderr, Getwd: os.Getwd}
	if err := cmd.Run([]string{"-p", pp, gp}); err != nil {
		t.Fatalf("gopatch failed: %v\n%s", err, stderr.String())
	}
	out, err := os.ReadFile(gp)
	if err != nil {
		t.Fatal(err)
	}
	f, err := parser.ParseFile(token.NewFileSet(), gp, out, 0)
	if err != nil {
		t.Fatalf("output does not parse: %v\n%s", err, out)
	}
	return string(out), f
}

func TestFinding3_ExpressionPatchRewritesNonExpressions(t *testing.T) {
	t.Run("identifier", func(t *testing.T) {
		out, f := runGopatchF3(t, `@@
@@
-log
+logger
`, `package log

import log "example.com/zap"

type T struct{ log int }

func f(x T) int {
log:
	for {
		break log
	}
	log.Info("x") // the only expression named "log"
	return x.log
}
`)
		if f.Name.Name != "log" {
			t.Errorf("package clause changed to %q", f.Name.Name)
		}
		if n := f.Imports[0].Name; n == nil || n.Name != "log" {
			t.Errorf("import alias changed")
		}
		if !strings.Contains(out, "struct{ log int }") {
			t.Errorf("struct field name changed")
		}
		if !strings.Contains(out, "break log\n") {
			t.Errorf("label changed")
		}
		if t.Failed() {
			t.Logf("output:\n%s", out)
		}
	})

	t.Run("string literal", func(t *testing.T) {
		out, f := runGopatchF3(t, `@@
@@
-"v1"
+"v2"
`, `package a

import "v1"

type T struct {
	A int "v1"
}

const version = "v1"
`)
		if f.Imports[0].Path.Value != `"v1"` {
			t.Errorf("import path changed to %s", f.Imports[0].Path.Value)
		}
		if !strings.Contains(out, `A int "v1"`) {
			t.Errorf("struct tag changed")
		}
		if t.Failed() {
			t.Logf("output:\n%s", out)
		}
	})
}
