package section

import (
	"go/token"

	"github.com/uber-go/gopatch/internal/zzverif/nd"
)

// VerifT00Split: Split on n symbolic ASCII bytes either fails or returns changes.
func VerifT00Split() {
	n := nd.Param("N", 4)
	content := nd.Bytes("b", n)
	for i := range content {
		nd.Assume(content[i] < 0x80)
	}
	fset := token.NewFileSet()
	prog, err := Split(fset, "p.patch", content)
	nd.Assert((err != nil) != (len(prog) > 0 && err == nil), "either changes or error")
	nd.Reach("done")
}

// VerifT00Bug has a seeded off-by-one.
func VerifT00Bug() {
	x := nd.Int("x")
	nd.Assume(x >= 0 && x <= 10)
	buf := make([]byte, 10)
	buf[x] = 1
	nd.Reach("done")
}

// VerifT00Concrete is a concrete differential probe.
func VerifT00Concrete() {
	fset := token.NewFileSet()
	prog, err := Split(fset, "p.patch", []byte("\n\n\n"))
	nd.Assert(err != nil, "err must be non-nil")
	nd.Assert(len(prog) > 0, "prog must be non-empty")
	nd.Assert((err != nil) != (len(prog) > 0), "xor (expected to FAIL)")
	nd.Reach("done")
}
