package patch

// Goes in: patch/ (package patch).
//
// C03 finding 4: a '+' side that starts with var/const/type is compiled as a
// top-level declaration; when the '-' side is a statement or an expression
// the value it produces never fits the slot of the match, and the
// AssignableTo check in FileReplacer.Replace drops every site silently.

import (
	"strings"
	"testing"
)

func TestC03H2Finding4_ShortVarDeclToVarDecl(t *testing.T) {
	const patchSrc = "@@\nvar x expression\nvar y identifier\n@@\n-y := foo(x)\n+var y = bar(x)\n"
	const src = `package p

func A() {
	a := foo(1)
	_ = a
}
`
	pf, err := Parse("var.patch", []byte(patchSrc))
	if err != nil {
		// Refusing the patch would be fine too; silently doing nothing is not.
		t.Skipf("patch refused: %v", err)
	}
	out, err := pf.Apply("a.go", []byte(src))
	if err != nil {
		t.Skipf("reported: %v", err)
	}
	if !strings.Contains(string(out), "var a = bar(1)") {
		t.Errorf("'var a = bar(1)' is admissible where 'a := foo(1)' stands, but the site was left unchanged without any error:\n%s", out)
	}
}

func TestC03H2Finding4_ExprToVarDecl(t *testing.T) {
	const patchSrc = "@@\nvar x expression\n@@\n-foo(x)\n+var _ = bar(x)\n"
	const src = `package p

func A() {
	foo(1)
}
`
	pf, err := Parse("var2.patch", []byte(patchSrc))
	if err != nil {
		t.Skipf("patch refused: %v", err)
	}
	out, err := pf.Apply("a.go", []byte(src))
	if err != nil {
		t.Skipf("reported: %v", err)
	}
	if !strings.Contains(string(out), "var _ = bar(1)") {
		t.Errorf("the statement 'foo(1)' was left unchanged without any error:\n%s", out)
	}
}
