#!/bin/bash
# Engine self-test. "setup": quick sanity (toy harness must pass + seeded bug must be found and replay natively).
set -u
cd "$(dirname "$0")/.."
export GOFLAGS=-mod=mod GOPROXY=off GOSUMDB=off GOTOOLCHAIN=local
out=$(./.build/symgo run -prop T00 -tier quick 2>&1); rc=$?
echo "$out" | tail -5
if [ $rc -ne 1 ] || ! echo "$out" | grep -q "entry=bug panic: runtime error: index out of range \[10\]"; then
  echo "SELFTEST FAILED: toy harness (expected the seeded off-by-one to be found and replayed)"; exit 1
fi
if ! echo "$out" | grep -q "RESULT property=T00 entry=split .* violations(distinct-sampled)=0"; then
  echo "SELFTEST FAILED: toy split harness"; exit 1
fi
rm -f evidence/T00.json
echo "SELFTEST OK"
