package main

import (
	"fmt"

	"github.com/uber-go/gopatch/internal/zzverif/nd"
)

func c14Observable(fx []frEffect, i int) (out []frEffect) {
	for _, x := range fx {
		if x.file == i && (x.kind == "write" || x.kind == "fsmut" || x.kind == "diff" || x.kind == "stdout" || x.kind == "stderr") {
			out = append(out, x)
		}
	}
	return
}

func c14Same(a, b []frEffect) bool {
	if len(a) != len(b) {
		return false
	}
	ok := true
	for i := range a {
		if a[i].kind != b[i].kind || a[i].name != b[i].name {
			return false
		}
		ok = nd.And(ok, nd.And(frBytesEq(a[i].data, b[i].data), frBytesEq(a[i].orig, b[i].orig)))
	}
	return ok
}

// VerifC14Isolation: the observable result for a file is the same whether
// the files processed before it match, fail to parse, fail to rewrite, are
// skipped or are absent from the run, and consists of its own bytes only.
func VerifC14Isolation() {
	nfiles := nd.Param("FILES", 2)
	frAllow.parseErr = true
	frAllow.generated = true
	frAllow.replaceErr = true
	frAllow.formatErr = true
	frAllow.noParse = true
	frAllow.writeErr = true
	frEnv = frNewEnv(nfiles, []int{2})
	e := frEnv
	e.opts = frSymOpts()
	cmd := frCmd()
	cmd.Run(nil)
	frAssertOwnBytes(e)
	first := e.effects

	// second run: every file but the last is replaced by a healthy file in
	// which nothing matches; the last file keeps its outcomes.
	last := nfiles - 1
	for i := 0; i < last; i++ {
		no := frTri{set: true, val: false}
		e.readErr[i], e.parseErr[i], e.generated[i], e.formatErr[i], e.writeErr[i] = no, no, no, no, no
		for k := range e.match[i] {
			e.match[i][k], e.replaceErr[i][k] = no, no
		}
	}
	e.effects, e.cur = nil, -1
	cmd2 := frCmd()
	cmd2.Run(nil)
	nd.Assert(c14Same(c14Observable(first, last), c14Observable(e.effects, last)),
		fmt.Sprintf("file %d: its result depends on what happened to the files processed before it", last))
	nd.Reach("done")
}

func ReplayC14Isolation() {
	nfiles := nd.Param("FILES", 2)
	for i := 0; i < nfiles; i++ {
		if frBit(fmt.Sprintf("formatErr%d", i)) {
			fmt.Println("REPLAY-ERROR: a go/format failure cannot be realised natively")
			return
		}
	}
	s := frScenarioFromModel(nfiles, []int{2})
	for i := 0; i < nfiles; i++ {
		s.readonly = append(s.readonly, frBit(fmt.Sprintf("writeErr%d", i)))
	}
	s.frCheckNative(s.runNative())
}
