package patch_test

// Goes in: patch/ (package patch_test), i.e. /patch/finding3_test.go
//
// C02: "An 'identifier' metavariable stands only for a single Go identifier".
// go/ast stores the "." of a dot import as ImportSpec.Name = &ast.Ident{Name: "."}
// and ImportMatcher.Match hands that to the metavariable, so an identifier
// metavariable gets bound to ".", which is not an identifier.

import (
	"testing"

	"github.com/uber-go/gopatch/patch"
)

func TestC02Finding3_IdentifierMetavarBindsDotImport(t *testing.T) {
	p, err := patch.Parse("f3.patch", []byte(
		"@@\nvar p identifier\n@@\n import p \"old\"\n\n-Foo()\n+p.Foo()\n"))
	if err != nil {
		t.Fatal(err)
	}

	src := "package a\n\nimport . \"old\"\n\nfunc f() {\n\tFoo()\n}\n"
	out, err := p.Apply("a.go", []byte(src))
	if err != nil {
		// current behaviour: p = "." and the output is "..Foo()"
		t.Fatalf("identifier metavariable was bound to the dot of a dot import: %v", err)
	}
	if string(out) != src {
		t.Errorf("got:\n%s\nwant unchanged:\n%s", out, src)
	}
}
