package patch

// Goes in: patch/ (package github.com/uber-go/gopatch/patch).
//
// C08: "never loops forever ... on small inputs".
// Matching a list with several "..." backtracks over every way of placing the
// sections between them; when the match finally fails the search is
// exponential in the number of elisions.

import (
	"strings"
	"testing"
	"time"
)

func TestFinding1_ElisionBacktrackingBlowup(t *testing.T) {
	// 13 elisions in one argument list (a 100-byte patch) ...
	patchSrc := "@@\n@@\n-f(" + strings.Repeat("..., 1, ", 12) + "..., 2)\n+g()\n"
	// ... against one call with 41 arguments (a 150-byte file) that does not match.
	goSrc := "package a\n\nfunc x() {\n\tf(" + strings.Repeat("1, ", 40) + "3)\n}\n"

	f, err := Parse("p.patch", []byte(patchSrc))
	if err != nil {
		t.Fatalf("patch must parse: %v", err)
	}

	done := make(chan struct{})
	go func() {
		defer close(done)
		defer func() { _ = recover() }()
		_, _ = f.Apply("a.go", []byte(goSrc))
	}()
	select {
	case <-done:
	case <-time.After(20 * time.Second):
		t.Fatalf("Apply did not terminate within 20s on a %d-byte patch and a %d-byte file",
			len(patchSrc), len(goSrc))
	}
}

func TestFinding1_ElisionBacktrackingBlowup_Statements(t *testing.T) {
	patchSrc := "@@\n@@\n" + strings.Repeat(" a()\n ...\n", 11) + "-b()\n+c()\n"
	goSrc := "package a\n\nfunc x() {\n" + strings.Repeat("\ta()\n", 36) + "}\n"

	f, err := Parse("p.patch", []byte(patchSrc))
	if err != nil {
		t.Fatalf("patch must parse: %v", err)
	}

	done := make(chan struct{})
	go func() {
		defer close(done)
		defer func() { _ = recover() }()
		_, _ = f.Apply("a.go", []byte(goSrc))
	}()
	select {
	case <-done:
	case <-time.After(20 * time.Second):
		t.Fatalf("Apply did not terminate within 20s on a %d-byte patch and a %d-byte file",
			len(patchSrc), len(goSrc))
	}
}
