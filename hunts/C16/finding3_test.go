package main

// Goes into the repository root (package main).
//
// C16: "a target file that [cannot be processed] is reported and skipped
// without changing the result for any other file", "stderr names the path
// and the cause", "exit status 0 means every discovered file was either
// patched or legitimately skipped".
//
// A perfectly valid Go file that contains a //line directive (goyacc, cgo,
// ragel, quicktemplate ... output) crashes the whole run: cleanupFilePos
// (main.go, same code in patch/gopatch.go) takes line numbers from
// token.File.Line, which are adjusted by //line directives, and hands them
// to token.File.MergeLine, which wants physical line numbers:
//
//	panic: invalid line number 1004 (should be < 10)
//
// The files that sort after it are never looked at, and nothing names the
// offending file.

import (
	"bytes"
	"fmt"
	"os"
	"path/filepath"
	"strings"
	"testing"
)

func TestFinding3_LineDirectiveAbortsTheRun(t *testing.T) {
	root := t.TempDir()
	write := func(name, body string) string {
		p := filepath.Join(root, name)
		if err := os.WriteFile(p, []byte(body), 0o644); err != nil {
			t.Fatal(err)
		}
		return p
	}
	patch := write("p.patch", "@@\nvar x expression\n@@\n-if x != nil {\n-  return x\n-}\n-return nil\n+return x\n")

	const body = "func f() error {\n\terr := g()\n\tif err != nil {\n\t\treturn err\n\t}\n\treturn nil\n}\n"
	write("a.go", "package a\n\n"+body)
	write("b.go", "package a\n\n//line gen.y:1000\n"+body)
	write("c.go", "package a\n\n"+body)

	var stdout, stderr bytes.Buffer
	cmd := &mainCmd{
		Stdin:  new(bytes.Buffer),
		Stdout: &stdout,
		Stderr: &stderr,
		Getwd:  func() (string, error) { return root, nil },
	}

	var (
		runErr   error
		panicked interface{}
	)
	func() {
		defer func() { panicked = recover() }()
		runErr = cmd.Run([]string{"-p", patch, "."})
	}()

	if panicked != nil {
		t.Errorf("run crashed instead of reporting b.go: panic: %v", panicked)
	}

	for _, name := range []string{"a.go", "b.go", "c.go"} {
		got, err := os.ReadFile(filepath.Join(root, name))
		if err != nil {
			t.Fatal(err)
		}
		patched := strings.Contains(string(got), "return err\n}") && !strings.Contains(string(got), "return nil")
		reported := runErr != nil && strings.Contains(runErr.Error(), name)
		if !patched && !reported {
			t.Errorf("%s was neither patched nor reported (err=%v, panic=%v)",
				name, runErr, fmt.Sprint(panicked))
		}
	}
}
