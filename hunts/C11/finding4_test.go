package patch

// Directory: patch/ (package patch). Needs helpers_c11_test.go.
//
// Finding 4: the node matcher of a patch that mentions no import also visits
// the children of ast.ImportSpec, so an expression patch rewrites import
// paths (string literal) and import names (identifier).

import "testing"

func TestC11Finding4_StringLiteralPatchRewritesImportPath(t *testing.T) {
	c11Check(t, `@@
@@
-"errors"
+"errs"
`, `package x

import (
	"errors"
	"fmt"
)

var kind = "errors"

func f() error {
	fmt.Println(kind)
	return errors.New("x")
}
`, `"errors"`, `"fmt"`)
}

func TestC11Finding4_IdentPatchRewritesImportName(t *testing.T) {
	c11Check(t, `@@
@@
-log
+logger
`, `package x

import log "example.com/zap"

func f(log int) {
	_ = log
}
`, `log "example.com/zap"`)
}
