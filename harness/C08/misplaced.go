package engine

import (
	"go/ast"
	"go/parser"
	"go/token"
	"reflect"
	"strings"

	"github.com/uber-go/gopatch/internal/data"

	"github.com/uber-go/gopatch/internal/parse"
	"github.com/uber-go/gopatch/internal/zzverif/nd"
)

// Well-formed but ill-typed patches: an expression metavariable is used on
// the '+' side where only a name can go. Rewriting must yield a value or an
// error, never a panic.
var c08Misplaced = []faCase{
	{name: "selector-sel",
		patch: "@@\nvar v expression\n@@\n-foo(v)\n+x.v\n",
		minus: "package p\n\nvar a = ⟦foo(«v:g()»)⟧\n"},
	{name: "selector-sel-ident",
		patch: "@@\nvar v expression\n@@\n-foo(v)\n+x.v\n",
		minus: "package p\n\nvar a = ⟦foo(«v:name»)⟧\n"},
	{name: "valuespec-name",
		patch: "@@\nvar v expression\n@@\n-var keep = v\n+var v = 1\n",
		minus: "package p\n\n⟦var keep = «v:a.b»⟧\n"},
	{name: "assign-lhs-is-fine",
		patch: "@@\nvar v expression\n@@\n-set(v)\n+v = 1\n",
		minus: "package p\n\nfunc f() {\n\t⟦set(«v:a[0]»)⟧\n}\n"},
	{name: "field-name",
		patch: "@@\nvar v expression\n@@\n-mk(v)\n+struct{ v int }{}\n",
		minus: "package p\n\nvar a = ⟦mk(«v:1 + 2»)⟧\n"},
	{name: "param-name",
		patch: "@@\nvar v expression\n@@\n-mk(v)\n+run(func(v int) {})\n",
		minus: "package p\n\nvar a = ⟦mk(«v:q.r»)⟧\n"},
	{name: "label",
		patch: "@@\nvar v expression\n@@\n-jump(v)\n+goto v\n",
		minus: "package p\n\nfunc f() {\n\t⟦jump(«v:1»)⟧\n}\n"},
	{name: "kv-key-is-fine",
		patch: "@@\nvar v expression\n@@\n-mk(v)\n+T{v: 1}\n",
		minus: "package p\n\nvar a = ⟦mk(«v:k()»)⟧\n"},
	{name: "type-name",
		patch: "@@\nvar v expression\n@@\n-type Old v\n+type v int\n",
		minus: "package p\n\n⟦type Old «v:[]int»⟧\n"},
	{name: "func-name",
		patch: "@@\nvar v expression\n@@\n-mk(v)\n+run(func() { v: for {} })\n",
		minus: "package p\n\nvar a = ⟦mk(«v:x.y»)⟧\n"},
	// well-formed patches whose '+' side, or whose captured code, contains nodes with absent optional children
	{name: "wellformed-captured-funclit",
		patch: "@@\nvar f expression\n@@\n-schedule(f)\n+scheduleNow(f)\n",
		minus: "package p\n\nvar a = ⟦schedule(«f:func() {\n\tfor {\n\t\tif x {\n\t\t\tbreak\n\t\t}\n\t\tcontinue\n\t}\n\tswitch {\n\tcase y:\n\t\tfallthrough\n\tdefault:\n\t\treturn\n\t}\n\tselect {}\n\t_ = s[:]\n\tvar c chan<- int\n\t_, _ = c, struct{}{}\n\tgoto done\ndone:\n}»)⟧\n"},
	{name: "wellformed-plus-bare-branches",
		patch: "@@\n@@\n-stop()\n+if done {\n+\tbreak\n+}\n+continue\n",
		minus: "package p\n\nfunc f() {\n\tfor {\n\t\t⟦stop()⟧\n\t}\n}\n"},
	{name: "wellformed-plus-empty-for-return",
		patch: "@@\n@@\n-spin()\n+for {\n+}\n+return\n",
		minus: "package p\n\nfunc f() {\n\t⟦spin()⟧\n}\n"},
	{name: "wellformed-plus-switch-fallthrough",
		patch: "@@\nvar x expression\n@@\n-pick(x)\n+switch {\n+case x:\n+\tfallthrough\n+default:\n+}\n",
		minus: "package p\n\nfunc f() {\n\t⟦pick(«x:ok»)⟧\n}\n"},
	{name: "wellformed-plus-slices-and-types",
		patch: "@@\nvar x expression\n@@\n-view(x)\n+wrap(func() (chan<- int, interface{}) { _ = x[:]; return nil, struct{}{} })\n",
		minus: "package p\n\nvar a = ⟦view(«x:buf»)⟧\n"},
	{name: "wellformed-plus-inferred-array",
		patch: "@@\nvar x expression\n@@\n-mk(x)\n+[...]int{x}\n",
		minus: "package p\n\nvar a = ⟦mk(«x:1»)⟧\n"},
	{name: "wellformed-minus-inferred-array",
		patch: "@@\nvar x expression\n@@\n-[...]int{x}\n+[]int{x}\n",
		minus: "package p\n\nvar a = ⟦[...]int{«x:1»}⟧\n\nvar b = [1]int{2}\n"},
	{name: "dots-kind-mismatch-list-to-for",
		patch: "@@\n@@\n-foo(...)\n+for ... {\n+}\n",
		minus: "package p\n\nfunc f() {\n\t⟦foo(«d1:1, 2»)⟧\n}\n"},
	{name: "dots-kind-mismatch-for-to-list",
		patch: "@@\n@@\n-for ... {\n-\tbar()\n-}\n+foo(...)\n",
		minus: "package p\n\nfunc f() {\n\t⟦for i := 0; i < 3; i++ {\n\t\tbar()\n\t}⟧\n}\n"},
	{name: "dots-kind-mismatch-plus-first-statement",
		patch: "@@\n@@\n+pre()\n+bar(...)\n-foo(...)\n",
		minus: "package p\n\nfunc f() {\n\tsetup()\n\t⟦foo(«d1:1, 2»)⟧\n}\n"},
	{name: "dots-kind-mismatch-results-regrouped",
		patch: "@@\n@@\n-func name() (error, ...) {\n- return nil, ...\n+func name() (..., error) {\n+ return ..., nil\n }\n",
		minus: "package p\n\n⟦func name() (error, «d1:string») {\n\treturn nil, «d2:\"s\"»\n}⟧\n"},
	{name: "ident-mv-everywhere-is-fine", idents: []string{"v"},
		patch: "@@\nvar v identifier\n@@\n-foo(v)\n+x.v\n",
		minus: "package p\n\nvar a = ⟦foo(«v:name»)⟧\n"},
}

// VerifC08Misplaced: compile, match and rewrite every ill-typed patch on an
// instance with arbitrary leaves: Replace returns normally (value or error).
func VerifC08Misplaced() {
	c := c08Misplaced[nd.Choose("case", len(c08Misplaced))]
	r := faPrepare(c)
	r.symboliseSite(0)
	nd.Assume(r.want[0])
	ch := r.prog.Changes[0]
	d, ok := ch.Match(r.file)
	nd.Assert(ok, c.name+": instance not matched")
	if !ok {
		return
	}
	out, err := ch.Replace(d, NewChangelog())
	nd.Assert((out == nil) != (err == nil), c.name+": Replace must return a file or an error")
	if strings.HasPrefix(c.name, "wellformed") {
		nd.Assert(err == nil, c.name+": a well-formed patch failed on its own instance")
	}
	if out != nil {
		nd.Assert(c08OnlyGoNodes(reflect.ValueOf(out), 0), c.name+": a pattern-only node (not a go/ast node) leaked into the rewritten file; go/printer cannot print it")
	}
	nd.Reach("done")
}

// VerifC16RewriteErrors: an error raised while building the replacement of
// one matched site is never swallowed: Change.Replace fails iff the node
// replacer fails for some match (C16: a failing rewrite is reported; C09:
// nothing is applied after a failed step).
func VerifC16RewriteErrors() {
	c := c08Misplaced[nd.Choose("case", len(c08Misplaced))]
	r := faPrepare(c)
	r.symboliseSite(0)
	nd.Assume(r.want[0])
	ch := r.prog.Changes[0]
	d, ok := ch.Match(r.file)
	nd.Assert(ok, c.name+": instance not matched")
	if !ok {
		return
	}
	var fd fileMatchData
	if !data.Lookup(d, fileMatchKey, &fd) {
		panic("harness: no file match data")
	}
	anyErr := false
	for _, m := range fd.Matches {
		if _, e := ch.replacer.NodeReplacer.Replace(m.data, NewChangelog(), m.region.Pos); e != nil {
			anyErr = true
		}
	}
	out, err := ch.Replace(d, NewChangelog())
	nd.Assert((err != nil) == anyErr, c.name+": building the replacement of a matched site failed but Change.Replace did not report it (or reported a failure nobody had)")
	nd.Assert((out == nil) == (err != nil), c.name+": a file was returned together with an error")
	nd.Reach("done")
}

// c08OnlyGoNodes: every node reachable in the rewritten tree is a go/ast node.
func c08OnlyGoNodes(v reflect.Value, depth int) bool {
	if depth > 80 {
		return true
	}
	switch v.Kind() {
	case reflect.Interface:
		if v.IsNil() {
			return true
		}
		return c08OnlyGoNodes(v.Elem(), depth+1)
	case reflect.Ptr:
		if v.IsNil() {
			return true
		}
		switch v.Type() {
		case faObjType, faScopeType:
			return true
		}
		if v.Type().Implements(faNodeType) && !strings.HasPrefix(v.Type().String(), "*ast.") {
			return false
		}
		return c08OnlyGoNodes(v.Elem(), depth+1)
	case reflect.Slice:
		for i := 0; i < v.Len(); i++ {
			if !c08OnlyGoNodes(v.Index(i), depth+1) {
				return false
			}
		}
	case reflect.Struct:
		for i := 0; i < v.NumField(); i++ {
			if !c08OnlyGoNodes(v.Field(i), depth+1) {
				return false
			}
		}
	}
	return true
}

// Elisions on the '+' side in positions where nothing can be reproduced for
// them (not a list element, not a for header).
var c08PlusDots = []struct{ name, patch, src string }{
	{"binary-operand", "@@\nvar x expression\n@@\n-foo(x)\n+bar(x + ...)\n", "package p\n\nvar a = foo(q)\n"},
	{"switch-tag", "@@\nvar x expression\n@@\n-foo(x)\n+switch ... {\n+}\n", "package p\n\nfunc f() {\n\tfoo(q)\n}\n"},
	{"slice-bound", "@@\nvar x expression\n@@\n-foo(x)\n+x[...:]\n", "package p\n\nvar a = foo(q)\n"},
	{"key-value", "@@\nvar x expression\n@@\n-foo(x)\n+T{K: ...}\n", "package p\n\nvar a = foo(q)\n"},
	{"for-clause-cond", "@@\nvar x expression\n@@\n-foo(x)\n+for i := 0; ...; i++ {\n+}\n", "package p\n\nfunc f() {\n\tfoo(q)\n}\n"},
	{"labelled", "@@\nvar x expression\n@@\n-foo(x)\n+L: ...\n", "package p\n\nfunc f() {\n\tfoo(q)\n}\n"},
	{"call-arguments-control", "@@\nvar x expression\n@@\n-foo(x, ...)\n+bar(..., x)\n", "package p\n\nvar a = foo(q)\n"},
}

// VerifC08PlusDots: such a patch is rejected when loaded, or fails when
// applied; it never panics and never puts a pattern-only node into the file.
func VerifC08PlusDots() {
	c := c08PlusDots[nd.Choose("case", len(c08PlusDots))]
	fset := token.NewFileSet()
	pp, err := parse.Parse(fset, "p.patch", []byte(c.patch))
	if err != nil {
		nd.Reach("rejected")
		return
	}
	prog, err := Compile(fset, pp)
	if err != nil {
		nd.Reach("rejected")
		return
	}
	file, err := parser.ParseFile(fset, "a.go", c.src, parser.ParseComments)
	if err != nil {
		panic("harness: " + err.Error())
	}
	name := nd.Str("arg", 1)
	nd.Assume(nd.And(name[0] >= 'a', name[0] <= 'z'))
	ast.Inspect(file, func(n ast.Node) bool {
		if id, ok := n.(*ast.Ident); ok && id.Name == "q" {
			id.Name = name
		}
		return true
	})
	ch := prog.Changes[0]
	d, ok := ch.Match(file)
	nd.Assert(ok, c.name+": foo(q) not matched")
	if !ok {
		return
	}
	out, rerr := ch.Replace(d, NewChangelog())
	nd.Assert((out == nil) != (rerr == nil), c.name+": Replace must return a file or an error")
	if out != nil {
		nd.Assert(c08OnlyGoNodes(reflect.ValueOf(out), 0), c.name+": a '...' of the '+' side that stands in no list leaked into the rewritten file as a pattern-only node; go/printer and ast.Walk panic on it")
		nd.Reach("applied")
	}
}

// VerifC08DotsBudget: a list that does not match a pattern with many
// elisions is rejected in time polynomial in their number (the search over
// placements must not repeat itself): 12 elisions against 27 elements.
func VerifC08DotsBudget() {
	pat := strings.Repeat(".b", 11) + ".a"
	fset := token.NewFileSet()
	pp, err := parse.Parse(fset, "p.patch", []byte(c04PatchSep(pat, "f(", ")", ",")))
	if err != nil {
		panic("harness: " + err.Error())
	}
	prog, err := Compile(fset, pp)
	if err != nil {
		panic("harness: " + err.Error())
	}
	const n = 27
	file, err := parser.ParseFile(fset, "a.go", "package p\n\nvar _ = f("+c04Repeat(n, "b", ", ")+")\n", 0)
	if err != nil {
		panic("harness: " + err.Error())
	}
	call := file.Decls[0].(*ast.GenDecl).Specs[0].(*ast.ValueSpec).Values[0].(*ast.CallExpr)
	last := nd.Byte("last")
	nd.Assume(nd.And(last >= 'a', last <= 'c'))
	call.Args[n-1].(*ast.Ident).Name = string([]byte{last})
	_, got := prog.Changes[0].matcher.NodeMatcher.Match(reflect.ValueOf(call), data.New(), nodeRegion(call))
	nd.Assert(nd.Iff(got, last == 'a'), "f(..., b ×11, ..., a) matches 27 elements iff the last one is a")
	nd.Reach("decided")
}
