package main

import (
	"fmt"

	"github.com/uber-go/gopatch/internal/zzverif/nd"
)

func c18SameEffects(a, b []frEffect) bool {
	if len(a) != len(b) {
		return false
	}
	ok := true
	for i := range a {
		if a[i].kind != b[i].kind || a[i].file != b[i].file || a[i].chg != b[i].chg || a[i].name != b[i].name {
			return false
		}
		ok = nd.And(ok, nd.And(frBytesEq(a[i].data, b[i].data), frBytesEq(a[i].orig, b[i].orig)))
	}
	return ok
}

// VerifC18Skip: with --skip-generated a generated file causes no effect of
// any kind in any mode; without the flag the predicate has no influence; a
// file that is not generated is processed exactly as without the flag.
func VerifC18Skip() {
	nfiles := nd.Param("FILES", 2)
	frAllow.generated = true
	frAllow.noParse = true
	frEnv = frNewEnv(nfiles, []int{2})
	e := frEnv
	// whether a file is generated is a fact about the file, not about the
	// code consulting the predicate: draw it up front
	for i := 0; i < nfiles; i++ {
		frDraw(&e.generated[i], fmt.Sprintf("generated%d", i), true)
	}
	diff, print, skipimports, verbose := nd.Bool("diff"), nd.Bool("print"), nd.Bool("skipimports"), nd.Bool("verbose")
	run := func(skipgen bool) ([]frEffect, error) {
		o := &options{Patches: []string{"p.patch"}, Diff: diff, Print: print, SkipImportProcessing: skipimports, SkipGenerated: skipgen, Verbose: verbose}
		o.Args.Patterns = []string{"."}
		e.opts, e.effects, e.cur = o, nil, -1
		cmd := frCmd()
		err := cmd.Run(nil)
		return e.effects, err
	}
	on, errOn := run(true)
	off, errOff := run(false)
	perFile := func(fx []frEffect, i int) (out []frEffect) {
		for _, x := range fx {
			// observable effects only: what is written, printed, diffed or described
			if x.file == i && (x.kind == "write" || x.kind == "fsmut" || x.kind == "diff" || x.kind == "stdout" || x.kind == "stderr") {
				out = append(out, x)
			}
		}
		return
	}
	allPlain := true
	for i := 0; i < nfiles; i++ {
		g := e.generated[i]
		isGen := nd.And(g.set, g.val)
		nd.Assert(nd.Implies(isGen, len(perFile(on, i)) == 0), fmt.Sprintf("file %d: generated file touched despite --skip-generated", i))
		nd.Assert(nd.Implies(nd.Not(isGen), c18SameEffects(perFile(on, i), perFile(off, i))), fmt.Sprintf("file %d: --skip-generated changed the result of a file that is not generated", i))
		allPlain = nd.And(allPlain, nd.Not(isGen))
	}
	nd.Assert(nd.Implies(allPlain, (errOn == nil) == (errOff == nil)), "--skip-generated changed the exit status although no file is generated")
	// without the flag the markers have no effect: force the predicate the other way and compare
	for i := range e.generated {
		e.generated[i] = frTri{set: true, val: !e.generated[i].val || !e.generated[i].set}
	}
	off2, _ := run(false)
	nd.Assert(c18SameEffects(off, off2), "without --skip-generated the generated-code marker influences the run")
	nd.Reach("done")
}

func ReplayC18Skip() {
	base := frScenarioFromModel(nd.Param("FILES", 2), []int{2})
	for _, sg := range []bool{true, false} {
		s := *base
		s.skipgenerated = sg
		s.frCheckNative(s.runNative())
	}
}
