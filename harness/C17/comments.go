package patch

// C17 end to end: the real patch.Parse and (*File).Apply - parse, Match,
// astdiff.Before, Replace, Snapshot.Diff, Changelog, cleanupFilePos - on files
// full of comments of every kind. Which of the candidate sites are instances
// of the pattern is decided by the solver (the distinguishing identifier of
// every candidate site is a symbolic name), so one run covers every subset of
// rewritten sites; the oracle is stated per top-level declaration.
//
// Stubs (see harness.json): go/parser.ParseFile parses the concrete text with
// the real parser and then makes the site names symbolic; go/format.Node
// captures the tree gopatch is about to print; imports.Process is the
// identity. Where go/printer puts the surviving comments is outside the claim.

import (
	"fmt"
	"go/ast"
	"go/parser"
	"go/token"
	"io"
	"reflect"
	"strings"

	"github.com/uber-go/gopatch/internal/zzverif/nd"
	"golang.org/x/tools/imports"
)

// c17PkgGroups: comment groups go/ast attaches to the package clause (the
// file node or the package name): the file's package comments.
var c17PkgGroups map[*ast.CommentGroup]bool

func c17FindPkgGroups(fset *token.FileSet, f *ast.File) {
	c17PkgGroups = map[*ast.CommentGroup]bool{}
	cm := ast.NewCommentMap(fset, f, f.Comments)
	for _, cg := range cm[f.Name] {
		c17PkgGroups[cg] = true
	}
	for _, cg := range cm[f] {
		if cg.End() <= f.Name.End() {
			c17PkgGroups[cg] = true
		}
	}
}

type c17Comment struct {
	c      *ast.Comment
	text   string
	owners []int // declaration indexes; -1 = header/package clause, len(decls) = end of file
}

type c17State struct {
	file       *ast.File
	decls      []ast.Decl
	isImport   []bool
	comments   []c17Comment
	touched    []bool // per declaration: some candidate site in it is an instance (solver term)
	docLen     []int
	any        bool
	origGroups []*ast.CommentGroup
	fout       *ast.File
	cs         c17Case
}

var c17 *c17State

// StubC17ParseFile: the real parser on the concrete text, then the candidate
// sites' names become solver variables.
func StubC17ParseFile(fset *token.FileSet, filename string, src any, mode parser.Mode) (*ast.File, error) {
	f, err := parser.ParseFile(fset, filename, src, mode)
	if err != nil || c17 == nil || c17.file != nil {
		return f, err
	}
	st := c17
	st.file = f
	st.decls = append([]ast.Decl(nil), f.Decls...)
	tf := fset.File(f.Pos())
	for i, d := range st.decls {
		gd, ok := d.(*ast.GenDecl)
		st.isImport = append(st.isImport, ok && gd.Tok == token.IMPORT)
		st.touched = append(st.touched, false)
		n := 0
		switch d := d.(type) {
		case *ast.GenDecl:
			if d.Doc != nil {
				n = len(d.Doc.List)
			}
		case *ast.FuncDecl:
			if d.Doc != nil {
				n = len(d.Doc.List)
			}
		}
		st.docLen = append(st.docLen, n)
		_ = i
	}
	// ownership of every comment
	c17FindPkgGroups(fset, f)
	st.origGroups = append([]*ast.CommentGroup(nil), f.Comments...)
	for _, cg := range f.Comments {
		for _, c := range cg.List {
			st.comments = append(st.comments, c17Comment{c: c, text: c.Text, owners: c17Owners(tf, f, st.decls, cg, c)})
		}
	}
	// symbolic site names
	k := 0
	for i, d := range st.decls {
		ast.Inspect(d, func(n ast.Node) bool {
			id, ok := n.(*ast.Ident)
			if !ok || id.Name != st.cs.marker {
				return true
			}
			s := nd.Str(fmt.Sprintf("site%d", k), len(id.Name))
			k++
			for j := 0; j < len(s); j++ {
				nd.Assume(nd.Or(nd.And(s[j] >= 'a', s[j] <= 'z'), nd.And(s[j] >= 'A', s[j] <= 'Z')))
			}
			isInst := nd.StrEq(s, st.cs.marker)
			id.Name = s
			st.touched[i] = nd.Or(st.touched[i], isInst)
			st.any = nd.Or(st.any, isInst)
			return true
		})
	}
	for i, d := range st.decls {
		if st.cs.fixed != "" && c17IsFixed(st.cs.fixed, c17DeclName(d)) {
			st.touched[i] = true
			st.any = true
		}
	}
	if st.cs.imports {
		for i := range st.decls {
			if st.isImport[i] && c17ImportTouched(st.cs, st.decls[i]) {
				st.touched[i] = st.any
			}
		}
	}
	return f, nil
}

// c17ImportTouched: a patch that adds an import may rewrite any import
// declaration (the new spec is merged into one of them); a patch that only
// deletes an import rewrites the declaration holding that path and no other.
func c17ImportTouched(cs c17Case, d ast.Decl) bool {
	if strings.Contains(cs.patch, "+import") {
		return true
	}
	gd := d.(*ast.GenDecl)
	for _, sp := range gd.Specs {
		if is, ok := sp.(*ast.ImportSpec); ok && strings.Contains(cs.patch, "-import "+is.Path.Value) {
			return true
		}
	}
	return false
}

// c17IsFixed: name is one of the comma-separated always-rewritten functions.
func c17IsFixed(fixed, name string) bool {
	for _, f := range strings.Split(fixed, ",") {
		if f != "" && f == name {
			return true
		}
	}
	return false
}

// c17DeclName: the name a declaration is listed under in c17Case.fixed: the
// function's name, or the first name the first spec declares.
func c17DeclName(d ast.Decl) string {
	switch d := d.(type) {
	case *ast.FuncDecl:
		return d.Name.Name
	case *ast.GenDecl:
		if len(d.Specs) > 0 {
			switch sp := d.Specs[0].(type) {
			case *ast.ValueSpec:
				return sp.Names[0].Name
			case *ast.TypeSpec:
				return sp.Name.Name
			}
		}
	}
	return ""
}

func c17DocOf(d ast.Decl) *ast.CommentGroup {
	switch d := d.(type) {
	case *ast.GenDecl:
		return d.Doc
	case *ast.FuncDecl:
		return d.Doc
	}
	return nil
}

// c17Owners: the declarations a comment belongs to. A comment inside a
// declaration, in its doc group, or on the line the declaration ends on
// belongs to that declaration alone; a free-standing comment between two
// declarations must survive only if both neighbours are untouched (the
// package clause and the end of the file are never touched).
func c17Owners(tf *token.File, f *ast.File, decls []ast.Decl, cg *ast.CommentGroup, c *ast.Comment) []int {
	if c.End() <= f.Name.End() || tf.Line(c.Pos()) == tf.Line(f.Name.End()) || c17PkgGroups[cg] {
		return []int{-1}
	}
	for i, d := range decls {
		if c.Pos() >= d.Pos() && c.End() <= d.End() {
			return []int{i}
		}
		if doc := c17DocOf(d); doc != nil && doc == cg {
			return []int{i}
		}
		if c.Pos() >= d.End() && tf.Line(c.Pos()) == tf.Line(d.End()) {
			return []int{i}
		}
	}
	prev := -1
	for i, d := range decls {
		if d.End() <= c.Pos() {
			prev = i
		}
	}
	return []int{prev, prev + 1}
}

func StubC17FormatNode(dst io.Writer, fset *token.FileSet, node any) error {
	if c17 != nil {
		if f, ok := node.(*ast.File); ok {
			c17.fout = f
		}
	}
	_, err := dst.Write([]byte("package p\n"))
	return err
}

func StubC17Process(filename string, src []byte, opt *imports.Options) ([]byte, error) {
	return src, nil
}

// VerifC17Comments is the entry point.
func VerifC17Comments() {
	cs := c17Cases[nd.Choose("case", len(c17Cases))]
	pf, err := Parse("p.patch", []byte(cs.patch))
	if err != nil {
		panic("harness: catalogue patch is rejected: " + cs.name + ": " + err.Error())
	}
	c17 = &c17State{cs: cs}
	st := c17
	_, err = pf.Apply("a.go", []byte(cs.src))
	nd.Assert(err == nil, cs.name+": Apply failed")
	if err != nil {
		return
	}
	if st.fout == nil {
		nd.Assert(nd.Not(st.any), cs.name+": an instance exists but nothing was rewritten")
		nd.Reach("nomatch")
		return
	}
	c17Check(st)
	nd.Reach("rewritten")
}

func c17Check(st *c17State) {
	name := st.cs.name
	index := map[*ast.Comment]int{}
	for k, oc := range st.comments {
		index[oc.c] = k
	}
	present := make([]int, len(st.comments))
	last := -1
	for _, cg := range st.fout.Comments {
		for _, c := range cg.List {
			k, ok := index[c]
			nd.Assert(ok, name+": a comment that was not in the input appears in the output: "+c17Short(c.Text))
			if !ok {
				continue
			}
			nd.Assert(c.Text == st.comments[k].text, name+": the text of a comment was altered: "+c17Short(st.comments[k].text))
			present[k]++
			nd.Assert(present[k] == 1, name+": a comment appears more often than in the input: "+c17Short(c.Text))
			nd.Assert(k > last, name+": comments were reordered around "+c17Short(c.Text))
			last = k
		}
	}
	// comments reachable through Doc/Comment fields of the tree's nodes (what
	// the printer falls back to when the file has no comment list) are the
	// input's own comment groups, never ones the patch brought along
	origGroups := map[*ast.CommentGroup]bool{}
	for _, oc := range st.comments {
		_ = oc
	}
	for _, cg := range st.origGroups {
		origGroups[cg] = true
	}
	c17NodeComments(reflect.ValueOf(st.fout.Decls), 0, func(cg *ast.CommentGroup) {
		nd.Assert(origGroups[cg], name+": a node of the rewritten tree carries a comment that was not in the input: "+c17Short(cg.Text()))
	})
	for k, oc := range st.comments {
		untouched := true
		for _, o := range oc.owners {
			if o >= 0 && o < len(st.touched) {
				untouched = nd.And(untouched, nd.Not(st.touched[o]))
			}
		}
		nd.Assert(nd.Implies(untouched, present[k] == 1),
			fmt.Sprintf("%s: comment %s of an untouched declaration (owners %v) is missing from the output", name, c17Short(oc.text), oc.owners))
	}
	for i, d := range st.decls {
		if doc := c17DocOf(d); doc != nil {
			nd.Assert(nd.Implies(nd.Not(st.touched[i]), len(doc.List) == st.docLen[i]),
				fmt.Sprintf("%s: the doc comment of untouched declaration %d changed", name, i))
		}
	}
}

func c17Short(s string) string {
	s = strings.ReplaceAll(s, "\n", " ")
	if len(s) > 40 {
		s = s[:40]
	}
	return "'" + s + "'"
}

// ReplayC17Comments realises a model natively: the site names the solver
// chose are written into the source text, the real Parse and Apply run
// (including go/format and imports.Process), and the comments of the output
// text are compared with the input's per declaration.
func ReplayC17Comments() {
	cs := c17Cases[nd.Choose("case", len(c17Cases))]
	fset := token.NewFileSet()
	f, err := parser.ParseFile(fset, "a.go", cs.src, parser.ParseComments)
	if err != nil {
		panic(err)
	}
	tf := fset.File(f.Pos())
	st := &c17State{cs: cs, file: f, decls: f.Decls}
	src := []byte(cs.src)
	k := 0
	for i, d := range f.Decls {
		gd, ok := d.(*ast.GenDecl)
		st.isImport = append(st.isImport, ok && gd.Tok == token.IMPORT)
		st.touched = append(st.touched, false)
		if cs.fixed != "" && c17IsFixed(cs.fixed, c17DeclName(d)) {
			st.touched[i] = true
			st.any = true
		}
		ast.Inspect(d, func(n ast.Node) bool {
			id, ok := n.(*ast.Ident)
			if !ok || id.Name != cs.marker {
				return true
			}
			s := nd.Str(fmt.Sprintf("site%d", k), len(id.Name))
			k++
			copy(src[tf.Offset(id.Pos()):], s)
			if s == cs.marker {
				st.touched[i] = true
				st.any = true
			}
			return true
		})
	}
	if cs.imports {
		for i := range st.decls {
			if st.isImport[i] && c17ImportTouched(cs, st.decls[i]) {
				st.touched[i] = st.any
			}
		}
	}
	want := map[string]bool{} // text -> must survive
	c17FindPkgGroups(fset, f)
	for _, cg := range f.Comments {
		for _, c := range cg.List {
			must := true
			for _, o := range c17Owners(tf, f, st.decls, cg, c) {
				if o >= 0 && o < len(st.touched) && st.touched[o] {
					must = false
				}
			}
			if _, dup := want[c.Text]; dup {
				panic("harness: comment texts of a catalogue file must be unique: " + c.Text)
			}
			want[c.Text] = must
		}
	}
	pf, err := Parse("p.patch", []byte(cs.patch))
	if err != nil {
		panic(err)
	}
	out, err := pf.Apply("a.go", src)
	if err != nil {
		nd.Fail(cs.name + ": Apply failed: " + err.Error())
		return
	}
	g, err := parser.ParseFile(token.NewFileSet(), "out.go", out, parser.ParseComments)
	if err != nil {
		nd.Fail(cs.name + ": output does not parse: " + err.Error())
		return
	}
	got := map[string]int{}
	for _, cg := range g.Comments {
		for _, c := range cg.List {
			got[c.Text]++
			if _, ok := want[c.Text]; !ok {
				nd.Fail(cs.name + ": a comment that was not in the input appears in the output: " + c17Short(c.Text))
			}
			if got[c.Text] > 1 {
				nd.Fail(cs.name + ": a comment appears more often than in the input: " + c17Short(c.Text))
			}
		}
	}
	for text, must := range want {
		if must && got[text] != 1 {
			nd.Fail(cs.name + ": comment " + c17Short(text) + " of an untouched declaration is missing from the output")
		}
	}
}

// c17NodeComments calls f for every non-nil *ast.CommentGroup stored in a node field below v.
func c17NodeComments(v reflect.Value, depth int, f func(*ast.CommentGroup)) {
	if depth > 80 {
		return
	}
	switch v.Kind() {
	case reflect.Interface:
		if !v.IsNil() {
			c17NodeComments(v.Elem(), depth+1, f)
		}
	case reflect.Ptr:
		if v.IsNil() {
			return
		}
		switch x := v.Interface().(type) {
		case *ast.CommentGroup:
			f(x)
			return
		case *ast.Object, *ast.Scope:
			return
		}
		c17NodeComments(v.Elem(), depth+1, f)
	case reflect.Slice:
		for i := 0; i < v.Len(); i++ {
			c17NodeComments(v.Index(i), depth+1, f)
		}
	case reflect.Struct:
		for i := 0; i < v.NumField(); i++ {
			c17NodeComments(v.Field(i), depth+1, f)
		}
	}
}
