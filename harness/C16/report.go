package main

import (
	"errors"
	"fmt"
	"os/signal"
	"strings"
	"syscall"

	"github.com/uber-go/gopatch/internal/zzverif/nd"
)

var c16FindErr []frTri

// StubC16FindGoFiles replaces findGoFiles: pattern "dK" holds file K, or cannot be enumerated.
func StubC16FindGoFiles(cwd, path string) ([]sourcePath, error) {
	k := int(path[1] - '0')
	if frDraw(&c16FindErr[k], fmt.Sprintf("findErr%d", k), true) {
		return nil, errors.New("lstat " + cwd + "/" + path + ": no such file or directory")
	}
	return []sourcePath{{Provided: fmt.Sprintf("%s/f%d.go", path, k), Absolute: frEnv.names[k]}}, nil
}

// VerifC16Report: whenever a requested path or file could not be processed,
// Run fails and its error names the path and the cause; success means every
// discovered file was patched or legitimately skipped.
func VerifC16Report() {
	nfiles := nd.Param("FILES", 2)
	frAllow.readErr = nd.Param("READERR", 1) == 1
	frAllow.parseErr = true
	frAllow.replaceErr = true
	frAllow.formatErr = true
	frAllow.noParse = true
	frAllow.writeErr = true
	// STDOUTERR=1: --print-only with a standard output that may refuse a file's bytes
	frAllow.stdoutErr = nd.Param("STDOUTERR", 0) == 1
	frEnv = frNewEnv(nfiles, []int{1})
	e := frEnv
	c16FindErr = make([]frTri, nfiles)
	e.opts = frSymOpts()
	if frAllow.stdoutErr {
		e.opts.Print, e.opts.Diff, e.opts.Verbose = true, false, false
	}
	e.opts.Args.Patterns = nil
	for k := 0; k < nfiles; k++ {
		e.opts.Args.Patterns = append(e.opts.Args.Patterns, fmt.Sprintf("d%d", k))
	}
	cmd := frCmd()
	err := cmd.Run(nil)
	msg := ""
	if err != nil {
		msg = err.Error()
	}
	named := func(what string, t frTri, path, cause string) {
		if !t.set {
			return
		}
		bad := t.val
		ok := err != nil && strings.Contains(msg, path) && strings.Contains(msg, cause)
		nd.Assert(nd.Implies(bad, ok), what+": the failure is not reported with its path and cause")
	}
	anyFail := false
	for i := 0; i < nfiles; i++ {
		named(fmt.Sprintf("pattern %d cannot be enumerated", i), c16FindErr[i], fmt.Sprintf("d%d", i), "no such file or directory")
		named(fmt.Sprintf("file %d cannot be read", i), e.readErr[i], e.names[i], "permission denied")
		named(fmt.Sprintf("file %d does not parse", i), e.parseErr[i], e.names[i], "expected 'package'")
		named(fmt.Sprintf("file %d cannot be rewritten", i), e.replaceErr[i][0], e.names[i], "bad metavariable")
		named(fmt.Sprintf("file %d cannot be printed", i), e.formatErr[i], e.names[i], "invalid AST")
		named(fmt.Sprintf("file %d cannot be written", i), e.writeErr[i], e.names[i], "no space left on device")
		named(fmt.Sprintf("file %d cannot be printed to standard output", i), e.stdoutErr[i], "", "no space left on device")
		if e.parses[i].set {
			named(fmt.Sprintf("file %d: result does not parse", i), frTri{set: true, val: !e.parses[i].val}, e.names[i], "expected declaration")
		}
		for _, t := range []frTri{c16FindErr[i], e.readErr[i], e.parseErr[i], e.replaceErr[i][0], e.formatErr[i], e.writeErr[i], e.stdoutErr[i]} {
			if t.set {
				anyFail = nd.Or(anyFail, t.val)
			}
		}
	}
	nd.Assert(nd.Implies(err == nil, nd.Not(anyFail)), "exit status 0 although something could not be processed")
	frAssertOwnBytes(e) // a failing file must not change the result for any other file
	nd.Reach("done")
}

// ReplayC16Report realises the failures with real files (a missing path, an
// unparseable file, a failing rewrite, an unparseable result, and - by
// dropping privileges - an unreadable or read-only file).
func ReplayC16Report() {
	nfiles := nd.Param("FILES", 2)
	for i := 0; i < nfiles; i++ {
		if frBit(fmt.Sprintf("formatErr%d", i)) {
			fmt.Println("REPLAY-ERROR: a go/format failure cannot be realised natively")
			return
		}
	}
	s := frScenarioFromModel(nfiles, []int{1})
	if nd.Param("STDOUTERR", 0) == 1 {
		s.print, s.diff, s.verbose = true, false, false
	}
	for i := 0; i < nfiles; i++ {
		s.missing = append(s.missing, frBit(fmt.Sprintf("findErr%d", i)))
		s.unreadable = append(s.unreadable, frBit(fmt.Sprintf("readErr%d", i)))
		s.readonly = append(s.readonly, frBit(fmt.Sprintf("writeErr%d", i)))
		s.stdoutFail = append(s.stdoutFail, frBit(fmt.Sprintf("stdoutErr%d", i)))
	}
	s.perDir = true
	s.frCheckNative(s.runNative())
}

// ---- write atomicity over the file-system model of the F-R skeleton (common/fr_fs.go) ----

// VerifC16Atomic: after a run in which the write of a file fails, is cut
// short or is interrupted at any point, the file holds its original bytes or
// its complete new bytes.
func VerifC16Atomic() {
	frEnv = frNewEnv(1, []int{1})
	e := frEnv
	e.opts = &options{Patches: []string{"p.patch"}}
	e.opts.Args.Patterns = []string{"."}
	frDisk, frHandles, frTemps = nil, nil, nil
	disk := frDiskInit()
	disk.allowShort, disk.allowOpen = true, true
	disk.crashAt = nd.Choose("crashAt", nd.Param("CRASHPOINTS", 12)) // 0 = no crash
	nd.Assume(e.match[0][0].set == false)
	cmd := frCmd()
	crashed := false
	func() {
		defer func() {
			if r := recover(); r != nil {
				if _, ok := r.(frCrash); !ok {
					panic(r)
				}
				crashed = true
			}
		}()
		cmd.Run(nil)
	}()
	_ = crashed
	got := disk.content[e.names[0]]
	want := append([]byte{'I'}, e.newBytes[0]...)
	nd.Assert(nd.Or(frBytesEq(got, e.content[0]), frBytesEq(got, want)),
		"file 0: neither original nor complete new content after a failed or interrupted write")
	nd.Reach("done")
}

// ReplayC16Atomic: a size limit (RLIMIT_FSIZE) cuts the real write short.
func ReplayC16Atomic() {
	// Realisable natively: a write cut short (size limit), which also stands
	// for an interruption between the truncating open and the completed write
	// (crash point 2). A failing open (the sandbox runs as root) and crash
	// points at which the model's disk already holds original or complete
	// content have no native counterpart here.
	crashAt, _ := nd.Lookup("crashAt")
	if frBit("openErr") || !frBit("match_f0_c0") || !(frBit("shortWrite") || crashAt == 2) {
		fmt.Println("REPLAY-ERROR: nothing to realise")
		return
	}
	s := frScenarioFromModel(1, []int{1})
	s.match[0][0] = true
	s.padding = 6000
	signal.Ignore(syscall.SIGXFSZ)
	s.fsizeLimit = 2048
	res := s.runNative()
	if res.disk[0] != s.orig(0) && res.disk[0] != s.patched(0) {
		nd.Fail(fmt.Sprintf("file 0 holds %d bytes after the failed write: neither its original %d bytes nor its complete %d patched bytes", len(res.disk[0]), len(s.orig(0)), len(s.patched(0))))
	}
}
