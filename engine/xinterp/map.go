// Copyright 2013 The Go Authors. All rights reserved.
// Use of this source code is governed by a BSD-style
// license that can be found in the LICENSE file.

package interp

// Insertion-ordered hashtable used for every Go map of the target program.
// Deterministic iteration order is required because paths are re-executed
// from a decision prefix: two executions of the same prefix must take the
// same steps. (Go leaves map iteration order unspecified; harnesses that
// depend on it must permute explicitly.)

import (
	"go/token"
	"go/types"
)

type entry struct {
	key     value
	value   value
	next    *entry
	deleted bool
}

type hashmap struct {
	keyType types.Type
	table   map[int]*entry
	order   []*entry
	length  int // number of live entries
	frozen  bool
	linear  bool // a symbolic scalar key was used: all entries live in one bucket
}

// symScalarKey reports whether k is (or wraps) a symbolic integer/boolean, or
// wraps (inside an interface or struct key) a string with symbolic bytes.
// A bare string key is hashed by length instead (hashKey).
func symScalarKey(k value) bool {
	switch k := k.(type) {
	case symInt, symBool:
		return true
	case iface:
		return symInnerKey(k.v)
	case structure:
		for _, f := range k {
			if symInnerKey(f) {
				return true
			}
		}
	}
	return false
}

func symInnerKey(k value) bool {
	if _, ok := k.(sstring); ok {
		return true
	}
	return symScalarKey(k)
}

func (m *hashmap) bucket(k value) int {
	if !m.linear && symScalarKey(k) {
		// switch to linear mode: equality is decided by the solver
		m.linear = true
		m.table = map[int]*entry{}
		for i := len(m.order) - 1; i >= 0; i-- {
			e := m.order[i]
			if !e.deleted {
				e.next = m.table[0]
				m.table[0] = e
			}
		}
	}
	if m.linear {
		return 0
	}
	return hashKey(m.keyType, k)
}

// scalarEqTerm builds the term "a == b" for map keys of type t.
func scalarEq(t types.Type, a, b value) bool {
	switch x := a.(type) {
	case iface:
		y := b.(iface)
		if x.t == nil || y.t == nil || !types.Identical(x.t, y.t) {
			return x.t == nil && y.t == nil
		}
		return scalarEq(x.t, x.v, y.v)
	case structure:
		y := b.(structure)
		st := t.Underlying().(*types.Struct)
		for i := range x {
			if !scalarEq(st.Field(i).Type(), x[i], y[i]) {
				return false
			}
		}
		return true
	}
	_, as := a.(sstring)
	_, bs := b.(sstring)
	if as || bs {
		switch t := seqEqTerm(byteSeq(a), byteSeq(b)); t {
		case "true":
			return true
		case "false":
			return false
		default:
			return X.decide(t)
		}
	}
	if isSym(a) || isSym(b) {
		switch r := binop(token.EQL, t, a, b).(type) {
		case bool:
			return r
		case symBool:
			return X.decide(r.t)
		}
	}
	return equals(t, a, b)
}

func hashKey(kt types.Type, k value) int {
	switch k := k.(type) {
	case string:
		return len(k) // strings hash by length so that symbolic strings can be keys
	case sstring:
		return len(k.b)
	}
	if isSym(k) {
		panic(unsupported("symbolic map key"))
	}
	return hash(kt, kt, k)
}

// keyEq compares two map keys; string keys with symbolic bytes are compared
// by a solver-decided fork.
func keyEq(kt types.Type, a, b value) bool {
	_, as := a.(sstring)
	_, bs := b.(sstring)
	if as || bs {
		t := seqEqTerm(byteSeq(a), byteSeq(b))
		switch t {
		case "true":
			return true
		case "false":
			return false
		}
		return X.decide(t)
	}
	if symScalarKey(a) || symScalarKey(b) {
		return scalarEq(kt, a, b)
	}
	return equals(kt, a, b)
}

// makeMap returns an empty initialized map of key type kt.
func makeMap(kt types.Type, reserve int64) value {
	return &hashmap{keyType: kt, table: make(map[int]*entry)}
}

func (m *hashmap) find(k value) *entry {
	if m == nil {
		return nil
	}
	h := m.bucket(k)
	for e := m.table[h]; e != nil; e = e.next {
		if !e.deleted && keyEq(m.keyType, k, e.key) {
			return e
		}
	}
	return nil
}

// delete removes the association for key k, if any.
func (m *hashmap) delete(k value) {
	if e := m.find(k); e != nil {
		if m.frozen {
			panic(frozenWrite{"delete from frozen map"})
		}
		e.deleted = true
		m.length--
		// unlink
		h := m.bucket(k)
		if m.table[h] == e {
			m.table[h] = e.next
		} else {
			for p := m.table[h]; p != nil; p = p.next {
				if p.next == e {
					p.next = e.next
					break
				}
			}
		}
	}
}

// lookup returns the value associated with key k, if present, or
// value(nil) otherwise.
func (m *hashmap) lookup(k value) value {
	if e := m.find(k); e != nil {
		return e.value
	}
	return nil
}

// insert updates the map to associate key k with value v.
func (m *hashmap) insert(k value, v value) {
	if m == nil {
		panic(targetPanic{iface{t: types.Typ[types.String], v: "assignment to entry in nil map"}})
	}
	if m.frozen {
		panic(frozenWrite{"insert into frozen map"})
	}
	if e := m.find(k); e != nil {
		e.value = v
		return
	}
	h := m.bucket(k)
	e := &entry{key: k, value: v, next: m.table[h]}
	m.table[h] = e
	m.order = append(m.order, e)
	m.length++
}

// len returns the number of key/value associations in the map.
func (m *hashmap) len() int {
	if m != nil {
		return m.length
	}
	return 0
}

// live returns the live entries in insertion order (a snapshot).
func (m *hashmap) live() []*entry {
	if m == nil {
		return nil
	}
	out := make([]*entry, 0, m.length)
	for _, e := range m.order {
		if !e.deleted {
			out = append(out, e)
		}
	}
	return out
}

type hashmapIter struct {
	m    *hashmap
	snap []*entry
	i    int
}

func (it *hashmapIter) next() tuple {
	for it.i < len(it.snap) {
		e := it.snap[it.i]
		it.i++
		if e.deleted {
			continue
		}
		return []value{true, e.key, e.value}
	}
	return []value{false, nil, nil}
}
