package main

import (
	"bytes"
	"os"
	"path/filepath"
	"strings"
	"testing"
)

// C12: "the bytes written in place by the default mode, the bytes printed by
// --print-only ... are all identical", "for all flag combinations of --diff,
// --print-only, --skip-import-processing, --skip-generated, -v".
//
// With -v the per-file log ("<abs path>: patched", "<abs path>: skipped",
// "generated file <abs path>: skipped") is written to STDOUT (main.go:
// logOut = cmd.Stdout), i.e. into the middle of the file contents printed by
// --print-only (and between the diffs printed by --diff).
func TestFinding5VerboseLogInPrintOnlyOutput(t *testing.T) {
	const patch = "@@\n@@\n-foo()\n+bar()\n"
	const src = "package a\n\nfunc f() {\n\tfoo()\n}\n"

	run := func(flags ...string) (stdout string, file string) {
		dir := t.TempDir()
		if err := os.WriteFile(filepath.Join(dir, "p.patch"), []byte(patch), 0o644); err != nil {
			t.Fatal(err)
		}
		if err := os.WriteFile(filepath.Join(dir, "a.go"), []byte(src), 0o644); err != nil {
			t.Fatal(err)
		}
		var so, se bytes.Buffer
		cmd := &mainCmd{
			Stdin:  strings.NewReader(""),
			Stdout: &so,
			Stderr: &se,
			Getwd:  func() (string, error) { return dir, nil },
		}
		if err := cmd.Run(append(append([]string{"-p", filepath.Join(dir, "p.patch")}, flags...), "a.go")); err != nil {
			t.Fatal(err)
		}
		b, _ := os.ReadFile(filepath.Join(dir, "a.go"))
		return so.String(), string(b)
	}

	_, written := run("-v")
	printed, _ := run("-v", "--print-only")
	if printed != written {
		t.Errorf("-v --print-only printed\n%q\nbut -v (default mode) wrote\n%q", printed, written)
	}
}
