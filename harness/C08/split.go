package section

import (
	"go/token"

	"github.com/uber-go/gopatch/internal/zzverif/nd"
)

// VerifC08Split: section.Split on N fully symbolic ASCII bytes never panics,
// terminates within the step budget, and returns either changes or an error.
func VerifC08Split() {
	n := nd.Param("N", 5)
	content := nd.Bytes("b", n)
	for i := range content {
		nd.Assume(content[i] < 0x80)
	}
	fset := token.NewFileSet()
	prog, err := Split(fset, "p.patch", content)
	nd.Assert(err != nil || len(prog) > 0, "Split returns changes or an error")
	if err == nil {
		for _, c := range prog {
			nd.Assert(c != nil, "nil change without error")
		}
	}
	nd.Reach("done")
}

var c08Skeleton = "# c\n@ a @\nvar x expression\n@@\n-f(x)\n+g(x)\n\n@@\n@@\n-a\n+b\n"

// VerifC08SplitHoles: a concrete two-change patch in which HOLES bytes at
// solver-chosen offsets are arbitrary ASCII bytes, truncated at an arbitrary
// length.
func VerifC08SplitHoles() {
	content := []byte(c08Skeleton)
	k := nd.Param("HOLES", 2)
	cut := nd.Choose("cut", len(content)+1)
	content = content[:cut]
	prev := -1
	for h := 0; h < k && len(content) > 0; h++ {
		at := nd.Choose("at", len(content))
		nd.Assume(at > prev)
		prev = at
		b := nd.Byte("hole")
		nd.Assume(b < 0x80)
		content[at] = b
	}
	fset := token.NewFileSet()
	prog, err := Split(fset, "p.patch", content)
	nd.Assert(err != nil || len(prog) > 0, "Split returns changes or an error")
	nd.Reach("done")
}
