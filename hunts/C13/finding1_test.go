package main

// C13 finding 1 (package main, repository root).
//
// Writing an unchanged, elision-free line (" x()") as an identical "-"/"+"
// pair in the usual unified-diff arrangement (all "-" lines of the hunk, then
// all "+" lines) changes which "..." of the "-" side each "..." of the "+"
// side is paired with (engine.connectDots pairs by nearest preceding patch
// line/column). The before/after texts that splitPatch produces are
// byte-identical for both layouts.

import (
	"bytes"
	"fmt"
	"go/ast"
	"go/parser"
	"go/token"
	"os"
	"path/filepath"
	"reflect"
	"testing"
)

func c13h1Run(t *testing.T, patch, src string) (stdout, stderr string, err error) {
	t.Helper()
	dir := t.TempDir()
	file := filepath.Join(dir, "src.go")
	if werr := os.WriteFile(file, []byte(src), 0o644); werr != nil {
		t.Fatal(werr)
	}
	var out, errb bytes.Buffer
	cmd := mainCmd{
		Stdin:  bytes.NewReader([]byte(patch)),
		Stdout: &out,
		Stderr: &errb,
		Getwd:  func() (string, error) { return dir, nil },
	}
	func() {
		defer func() {
			if r := recover(); r != nil {
				err = fmt.Errorf("PANIC: %v", r)
			}
		}()
		err = cmd.Run([]string{"--print-only", file})
	}()
	return out.String(), errb.String(), err
}

// c13h1Syntax renders src as a position-free, comment-free syntax tree dump.
func c13h1Syntax(t *testing.T, src string) string {
	t.Helper()
	f, err := parser.ParseFile(token.NewFileSet(), "out.go", src, parser.SkipObjectResolution)
	if err != nil {
		return "UNPARSEABLE: " + err.Error() + "\n" + src
	}
	posT := reflect.TypeOf(token.NoPos)
	var buf bytes.Buffer
	_ = ast.Fprint(&buf, nil, f, func(name string, v reflect.Value) bool {
		return v.Type() != posT && name != "Obj" && name != "Scope" && name != "Unresolved"
	})
	return buf.String()
}

func TestC13H1_PairVersusContextLine_WrongArguments(t *testing.T) {
	const src = `package a

func f() {
	a(1)
	x()
	c(2)
}
`
	// x() written once, with a space prefix.
	const contextLayout = `@@
@@
-a(...)
+b(...)
 x()
-c(...)
+d(...)
`
	// x() written as an identical -/+ pair, hunk in unified-diff order.
	const pairLayout = `@@
@@
-a(...)
-x()
-c(...)
+b(...)
+x()
+d(...)
`
	out1, _, err1 := c13h1Run(t, contextLayout, src)
	out2, _, err2 := c13h1Run(t, pairLayout, src)
	if err1 != nil || err2 != nil {
		t.Fatalf("errors: context layout: %v; pair layout: %v", err1, err2)
	}
	if c13h1Syntax(t, out1) != c13h1Syntax(t, out2) {
		t.Errorf("results differ syntactically.\n--- context-line layout:\n%s\n--- pair layout:\n%s", out1, out2)
	}
}

func TestC13H1_PairVersusContextLine_Panic(t *testing.T) {
	const src = `package a

func name(foo string) (error, string) {
	x()
	return nil, "s"
}
`
	const contextLayout = `@@
@@
-func name(foo string) (error, ...) {
+func name(foo string) (..., error) {
   x()
-  return nil, ...
+  return ..., nil
 }
`
	const pairLayout = `@@
@@
-func name(foo string) (error, ...) {
-  x()
-  return nil, ...
+func name(foo string) (..., error) {
+  x()
+  return ..., nil
 }
`
	out1, _, err1 := c13h1Run(t, contextLayout, src)
	out2, _, err2 := c13h1Run(t, pairLayout, src)
	if err1 != nil {
		t.Fatalf("context layout failed: %v", err1)
	}
	if err2 != nil {
		t.Fatalf("pair layout failed although context layout produced:\n%s\nerror: %v", out1, err2)
	}
	if c13h1Syntax(t, out1) != c13h1Syntax(t, out2) {
		t.Errorf("results differ syntactically.\n--- context-line layout:\n%s\n--- pair layout:\n%s", out1, out2)
	}
}
