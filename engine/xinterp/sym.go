package interp

// Symbolic values: bit-vector integers, booleans and byte-vector strings as
// SMT-LIB2 terms.

import (
	"fmt"
	"go/token"
	"go/types"
)

type symInt struct {
	t string
	k types.BasicKind
}
type symBool struct{ t string }

// sstring is a string of concrete length whose bytes may be symbolic.
type sstring struct{ b []value }

// symElem is a pointer into a concrete array at a symbolic index (read-only).
type symElem struct {
	arr array
	idx symInt
	et  types.Type
}

func kindOf(t types.Type) types.BasicKind {
	if b, ok := t.Underlying().(*types.Basic); ok {
		return b.Kind()
	}
	return types.Invalid
}

func kindOfValue(x value) types.BasicKind {
	switch x := x.(type) {
	case symInt:
		return x.k
	case int:
		return types.Int
	case int8:
		return types.Int8
	case int16:
		return types.Int16
	case int32:
		return types.Int32
	case int64:
		return types.Int64
	case uint:
		return types.Uint
	case uint8:
		return types.Uint8
	case uint16:
		return types.Uint16
	case uint32:
		return types.Uint32
	case uint64:
		return types.Uint64
	case uintptr:
		return types.Uintptr
	}
	return types.Invalid
}

func width(k types.BasicKind) int {
	switch k {
	case types.Int8, types.Uint8:
		return 8
	case types.Int16, types.Uint16:
		return 16
	case types.Int32, types.Uint32:
		return 32
	}
	return 64
}

func isSigned(k types.BasicKind) bool {
	switch k {
	case types.Int, types.Int8, types.Int16, types.Int32, types.Int64, types.UntypedInt, types.UntypedRune:
		return true
	}
	return false
}

func bvc(v uint64, w int) string {
	if w < 64 {
		v &= (1 << uint(w)) - 1
	}
	return fmt.Sprintf("(_ bv%d %d)", v, w)
}

func isSym(x value) bool {
	switch x.(type) {
	case symInt, symBool, sstring:
		return true
	}
	return false
}

// term returns the SMT term for integer value x at kind k.
func term(x value, k types.BasicKind) string {
	switch x := x.(type) {
	case symInt:
		return resize(x, k).t
	}
	return bvc(uint64(asInt64(x)), width(k))
}

func resize(x symInt, k types.BasicKind) symInt {
	ws, wd := width(x.k), width(k)
	switch {
	case ws == wd:
		return symInt{x.t, k}
	case wd < ws:
		return symInt{fmt.Sprintf("((_ extract %d 0) %s)", wd-1, x.t), k}
	case isSigned(x.k):
		return symInt{fmt.Sprintf("((_ sign_extend %d) %s)", wd-ws, x.t), k}
	default:
		return symInt{fmt.Sprintf("((_ zero_extend %d) %s)", wd-ws, x.t), k}
	}
}

func boolTerm(x value) string {
	switch x := x.(type) {
	case symBool:
		return x.t
	case bool:
		if x {
			return "true"
		}
		return "false"
	}
	panic(fmt.Sprintf("boolTerm %T", x))
}

func symBinop(op token.Token, t types.Type, x, y value) value {
	// strings
	if _, ok := x.(sstring); ok {
		return strBinop(op, x, y)
	}
	if _, ok := y.(sstring); ok {
		return strBinop(op, x, y)
	}
	// bools
	if _, ok := x.(symBool); ok || isBoolV(y) && isSymBool(y) {
		a, b := boolTerm(x), boolTerm(y)
		switch op {
		case token.EQL:
			return symBool{"(= " + a + " " + b + ")"}
		case token.NEQ:
			return symBool{"(not (= " + a + " " + b + "))"}
		}
		panic("sym bool op " + op.String())
	}
	if isSymBool(y) {
		a, b := boolTerm(x), boolTerm(y)
		switch op {
		case token.EQL:
			return symBool{"(= " + a + " " + b + ")"}
		case token.NEQ:
			return symBool{"(not (= " + a + " " + b + "))"}
		}
	}
	k := kindOf(t)
	if k == types.Invalid || k == types.UntypedInt {
		k = kindOfValue(x)
	}
	if op == token.SHL || op == token.SHR {
		a := term(x, k)
		var b string
		if isSym(y) {
			// amount as a bit-vector of the operand's width, saturated at the width
			// (Go: shifting by >= width gives 0 / the sign fill, as bvshl/bvlshr/bvashr do)
			ky := kindOfValue(y)
			if isSigned(ky) {
				panic(unsupported("shift by symbolic signed amount"))
			}
			ta := term(y, ky)
			switch wy, wk := width(ky), width(k); {
			case wy == wk:
				b = ta
			case wy < wk:
				b = fmt.Sprintf("((_ zero_extend %d) %s)", wk-wy, ta)
			default:
				b = fmt.Sprintf("(ite (bvuge %s %s) %s ((_ extract %d 0) %s))", ta, bvc(uint64(wk), wy), bvc(uint64(wk), wk), wk-1, ta)
			}
		} else {
			yu, _ := asUnsigned(y)
			b = bvc(asUint64(yu), width(k))
		}
		if op == token.SHL {
			return symInt{"(bvshl " + a + " " + b + ")", k}
		}
		if isSigned(k) {
			return symInt{"(bvashr " + a + " " + b + ")", k}
		}
		return symInt{"(bvlshr " + a + " " + b + ")", k}
	}
	a, b := term(x, k), term(y, k)
	s := isSigned(k)
	cmp := func(sop, uop string) value {
		if s {
			return symBool{"(" + sop + " " + a + " " + b + ")"}
		}
		return symBool{"(" + uop + " " + a + " " + b + ")"}
	}
	switch op {
	case token.ADD:
		return symInt{"(bvadd " + a + " " + b + ")", k}
	case token.SUB:
		return symInt{"(bvsub " + a + " " + b + ")", k}
	case token.MUL:
		return symInt{"(bvmul " + a + " " + b + ")", k}
	case token.QUO, token.REM:
		if isSym(y) {
			panic(unsupported("division by a symbolic value"))
		}
		if yu, _ := asUnsigned(y); asUint64(yu) == 0 {
			panic(unsupported("division by constant zero"))
		}
		ops := map[token.Token][2]string{token.QUO: {"bvsdiv", "bvudiv"}, token.REM: {"bvsrem", "bvurem"}}[op]
		if s {
			return symInt{"(" + ops[0] + " " + a + " " + b + ")", k}
		}
		return symInt{"(" + ops[1] + " " + a + " " + b + ")", k}
	case token.AND:
		return symInt{"(bvand " + a + " " + b + ")", k}
	case token.OR:
		return symInt{"(bvor " + a + " " + b + ")", k}
	case token.XOR:
		return symInt{"(bvxor " + a + " " + b + ")", k}
	case token.AND_NOT:
		return symInt{"(bvand " + a + " (bvnot " + b + "))", k}
	case token.EQL:
		return symBool{"(= " + a + " " + b + ")"}
	case token.NEQ:
		return symBool{"(not (= " + a + " " + b + "))"}
	case token.LSS:
		return cmp("bvslt", "bvult")
	case token.LEQ:
		return cmp("bvsle", "bvule")
	case token.GTR:
		return cmp("bvsgt", "bvugt")
	case token.GEQ:
		return cmp("bvsge", "bvuge")
	}
	panic(unsupported("sym binop " + op.String()))
}

func isBoolV(x value) bool   { _, ok := x.(bool); return ok }
func isSymBool(x value) bool { _, ok := x.(symBool); return ok }

func strBytes(x value) []value {
	switch x := x.(type) {
	case sstring:
		return x.b
	case string:
		return bytesToValues(x)
	}
	panic(fmt.Sprintf("strBytes %T", x))
}

func mkString(b []value) value {
	for _, c := range b {
		if _, ok := c.(symInt); ok {
			return sstring{b}
		}
	}
	bs := make([]byte, len(b))
	for i := range b {
		bs[i] = b[i].(byte)
	}
	return string(bs)
}

func strBinop(op token.Token, x, y value) value {
	a, b := strBytes(x), strBytes(y)
	switch op {
	case token.ADD:
		return mkString(append(append([]value{}, a...), b...))
	case token.EQL:
		return mkBool(seqEqTerm(a, b))
	case token.NEQ:
		return mkBool(notTerm(seqEqTerm(a, b)))
	case token.LSS, token.LEQ, token.GTR, token.GEQ:
		switch op {
		case token.GTR:
			return mkBool(seqLessTerm(b, a, false))
		case token.GEQ:
			return mkBool(seqLessTerm(b, a, true))
		case token.LEQ:
			return mkBool(seqLessTerm(a, b, true))
		}
		return mkBool(seqLessTerm(a, b, false))
	}
	panic(unsupported("sym string op " + op.String()))
}

// seqLessTerm is the term "a < b" (or "a <= b") in lexicographic byte order.
func seqLessTerm(a, b []value, orEqual bool) string {
	n := len(a)
	if len(b) < n {
		n = len(b)
	}
	// res for the common prefix exhausted:
	var res string
	switch {
	case len(a) < len(b):
		res = "true"
	case len(a) == len(b) && orEqual:
		res = "true"
	default:
		res = "false"
	}
	for i := n - 1; i >= 0; i-- {
		x, xok := a[i].(byte)
		y, yok := b[i].(byte)
		if xok && yok {
			switch {
			case x < y:
				res = "true"
			case x > y:
				res = "false"
			}
			continue
		}
		ta, tb := term(a[i], types.Uint8), term(b[i], types.Uint8)
		if res == "true" {
			res = "(bvule " + ta + " " + tb + ")"
		} else if res == "false" {
			res = "(bvult " + ta + " " + tb + ")"
		} else {
			res = "(or (bvult " + ta + " " + tb + ") (and (= " + ta + " " + tb + ") " + res + "))"
		}
	}
	if X != nil && X.z != nil {
		res = X.share(res, "Bool")
	}
	return res
}
