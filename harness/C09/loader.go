package main

// C09/C16 (patch loading): the real loadPatches / patchLoader over a model of
// the patch files. The -p sequence (up to 3 entries drawn, with repetition,
// from 4 paths of which one may be missing and one unparseable) and the -P
// list (up to 3 such entries, blank lines in between) are solver-chosen.
// Every named patch is loaded, in flag order then list order, once per
// mention (a path named twice is applied twice); if any named patch cannot be
// loaded, loading fails and the error names that path.

import (
	"fmt"
	"go/token"
	"os"
	"path/filepath"
	"strings"

	"github.com/uber-go/gopatch/internal/engine"
	"github.com/uber-go/gopatch/internal/zzverif/nd"
)

var c09Paths = []string{"p0.patch", "p1.patch", "p2.patch", "bad.patch", "missing.patch"}

func c09Seq(tag string, max int) []int {
	n := nd.Choose(tag+"n", max+1)
	out := make([]int, n)
	for i := range out {
		out[i] = nd.Choose(tag, len(c09Paths))
	}
	return out
}

func c09ListText(seq []int, prefix string) string {
	var b strings.Builder
	for i, k := range seq {
		if i > 0 {
			b.WriteString("\n") // a blank line between entries
		}
		b.WriteString(prefix + c09Paths[k] + "\n")
	}
	return b.String()
}

// c09Expect: the programs (indices) to load in order, or the first path that fails.
func c09Expect(flagSeq, listSeq []int) (want []int, failing string) {
	for _, k := range append(append([]int{}, flagSeq...), listSeq...) {
		if k >= 3 {
			return nil, c09Paths[k]
		}
		want = append(want, k)
	}
	return want, ""
}

func VerifC09Loader() {
	frEnv = frNewEnv(0, []int{1, 1, 1, 1})
	c09Files, c09Content, c09Off, c09Loaded = map[string]*os.File{}, map[*os.File][]byte{}, map[*os.File]int{}, nil
	add := func(name, content string) {
		f := new(os.File)
		c09Files[name] = f
		c09Content[f] = []byte(content)
	}
	add("p0.patch", "P0")
	add("p1.patch", "P1")
	add("p2.patch", "P2")
	add("bad.patch", "BAD") // exists, but parseAndCompile rejects it
	flagSeq := c09Seq("flag", nd.Param("MAXP", 3))
	listSeq := c09Seq("list", nd.Param("MAXL", 2))
	nd.Assume(len(flagSeq)+len(listSeq) > 0)
	o := &options{}
	for _, k := range flagSeq {
		o.Patches = append(o.Patches, c09Paths[k])
	}
	c09Unreadable = map[*os.File]bool{}
	listIsDir := false
	if len(listSeq) > 0 {
		add("list.txt", c09ListText(listSeq, ""))
		o.PatchesFile = "list.txt"
		if nd.Bool("listIsDir") {
			// -P names something that opens but cannot be read (a directory)
			listIsDir = true
			c09Unreadable[c09Files["list.txt"]] = true
		}
	}
	progs, err := loadPatches(token.NewFileSet(), o, &c09Reader{})
	want, failing := c09Expect(flagSeq, listSeq)
	if listIsDir {
		if _, f := c09Expect(flagSeq, nil); f == "" {
			nd.Assert(err != nil, "the patches list cannot be read but loading succeeded (its patches were silently not applied)")
			if err != nil {
				nd.Assert(strings.Contains(err.Error(), "list.txt"), "the error does not name the patches list that cannot be read")
			}
			nd.Reach("failed")
			return
		}
	}
	if failing != "" {
		nd.Assert(err != nil, "a named patch ("+failing+") cannot be loaded but loading succeeded")
		if err != nil {
			nd.Assert(strings.Contains(err.Error(), failing), "the error does not name the patch that cannot be loaded: "+failing)
		}
		nd.Reach("failed")
		return
	}
	nd.Assert(err == nil, "loading failed although every named patch is loadable")
	if err != nil {
		return
	}
	ok := len(progs) == len(want)
	if ok {
		for i, p := range progs {
			ok = ok && p == frEnv.progs[want[i]]
		}
	}
	nd.Assert(ok, fmt.Sprintf("patches are not loaded once per mention in flag-then-list order: want %v, loaded %v", want, c09Loaded))
	nd.Reach("loaded")
}

// ReplayC09Loader: real files, real loadPatches.
func ReplayC09Loader() {
	flagSeq := c09Seq("flag", nd.Param("MAXP", 3))
	listSeq := c09Seq("list", nd.Param("MAXL", 2))
	dir, err := os.MkdirTemp("", "verifc09-")
	if err != nil {
		panic(err)
	}
	defer os.RemoveAll(dir)
	for i := 0; i < 3; i++ {
		os.WriteFile(filepath.Join(dir, c09Paths[i]), []byte(fmt.Sprintf("@ p%d @\n@@\n-a%d()\n+b%d()\n", i, i, i)), 0o644)
	}
	os.WriteFile(filepath.Join(dir, "bad.patch"), []byte("@@\nvar x nosuchtype\n@@\n-a(\n"), 0o644)
	o := &options{}
	for _, k := range flagSeq {
		o.Patches = append(o.Patches, filepath.Join(dir, c09Paths[k]))
	}
	listIsDir := false
	if len(listSeq) > 0 {
		lf := filepath.Join(dir, "list.txt")
		if nd.Bool("listIsDir") {
			listIsDir = true
			os.Mkdir(lf, 0o755)
		} else {
			os.WriteFile(lf, []byte(c09ListText(listSeq, dir+"/")), 0o644)
		}
		o.PatchesFile = lf
	}
	progs, err := loadPatches(token.NewFileSet(), o, strings.NewReader(""))
	want, failing := c09Expect(flagSeq, listSeq)
	if listIsDir {
		if _, f := c09Expect(flagSeq, nil); f == "" {
			if err == nil {
				nd.Fail("the patches list cannot be read but loading succeeded (its patches were silently not applied)")
			} else if !strings.Contains(err.Error(), "list.txt") {
				nd.Fail("the error does not name the patches list that cannot be read")
			}
			return
		}
	}
	if failing != "" {
		if err == nil {
			nd.Fail("a named patch (" + failing + ") cannot be loaded but loading succeeded")
		} else if !strings.Contains(err.Error(), failing) {
			nd.Fail("the error does not name the patch that cannot be loaded: " + failing)
		}
		return
	}
	if err != nil {
		nd.Fail("loading failed although every named patch is loadable")
		return
	}
	ok := len(progs) == len(want)
	if ok {
		for i, p := range progs {
			ok = ok && len(p.Changes) == 1 && p.Changes[0].Name == fmt.Sprintf("p%d", want[i])
		}
	}
	if !ok {
		nd.Fail(fmt.Sprintf("patches are not loaded once per mention in flag-then-list order: want %v", want))
	}
	_ = engine.Program{}
}
