package patch

// Directory: patch/ (package patch). Needs helpers_c11_test.go.
//
// Finding 2: an import on a '-' line is deleted although the rewritten file
// still refers to its package, when the package name differs from the last
// element of the import path.

import "testing"

func TestC11Finding2_MinusImportStillReferredDeleted(t *testing.T) {
	c11Check(t, `@@
@@
-import "gopkg.in/yaml.v2"
+import "example.com/myyaml"

-yaml.Marshal(...)
+myyaml.Marshal(...)
`, `package x

import (
	"fmt"

	"gopkg.in/yaml.v2"
)

func f() {
	yaml.Marshal(1)
	yaml.Unmarshal(nil, nil)
	fmt.Println()
}
`, `"fmt"`, `"example.com/myyaml"`, `"gopkg.in/yaml.v2"`)
}
