package main

// Goes into the repository root (package main).
//
// C16: "Whenever a requested path, patch or file could not be processed the
// exit status is non-zero and stderr names the path and the cause".
//
// With --print-only, a failing write of an UNMATCHED file's contents makes
// Run return that write error alone: the failures recorded for earlier files
// (here an unparseable a.go) are thrown away and never reach stderr.
// (Same class as the already fixed "keep earlier per-file errors when a
// target cannot be read", different exit path: main.go, the "!ok" branch,
// "return err".)

import (
	"bytes"
	"errors"
	"os"
	"path/filepath"
	"strings"
	"testing"
)

type finding2FullWriter struct{}

func (finding2FullWriter) Write([]byte) (int, error) {
	return 0, errors.New("write /dev/stdout: no space left on device")
}

func TestFinding2_PrintOnlyWriteErrorDropsEarlierFailures(t *testing.T) {
	root := t.TempDir()
	write := func(name, body string) string {
		p := filepath.Join(root, name)
		if err := os.WriteFile(p, []byte(body), 0o644); err != nil {
			t.Fatal(err)
		}
		return p
	}
	patch := write("p.patch", "@@\n@@\n-foo()\n+bar()\n")
	write("a.go", "package a\n\nfunc f() {\n\tfoo(\n}\n")  // does not parse
	write("b.go", "package a\n\nfunc f() {\n\tbaz()\n}\n") // parses, patch does not match
	write("c.go", "package a\n\nfunc f() {\n\tfoo()\n}\n") // matches

	var stderr bytes.Buffer
	cmd := &mainCmd{
		Stdin:  new(bytes.Buffer),
		Stdout: finding2FullWriter{},
		Stderr: &stderr,
		Getwd:  func() (string, error) { return root, nil },
	}
	err := cmd.Run([]string{"--print-only", "-p", patch, "a.go", "b.go", "c.go"})
	if err == nil {
		t.Fatal("expected an error")
	}
	// runMain prints exactly this error to stderr.
	if !strings.Contains(err.Error(), "a.go") {
		t.Errorf("a.go could not be parsed, but the reported error does not name it: %q", err.Error())
	}
}
