package patch

// C08 through the library entry point: the real patch.Parse and (*File).Apply
// (Match, Replace, astdiff, cleanupFilePos) on inputs whose rewrite is
// ill-formed or deep. Apply returns - a result or an error - within the step
// budget; it never panics. go/format.Node is stubbed (what go/printer does
// with the tree is not executed), imports.Process is the identity.

import (
	"go/ast"
	"go/parser"
	"go/token"
	"io"
	"strings"

	"github.com/uber-go/gopatch/internal/zzverif/nd"
	"golang.org/x/tools/imports"
)

type c08ApplyCase struct{ name, patch, src string }

func c08Nest(open, close, core string, n int) string {
	return strings.Repeat(open, n) + core + strings.Repeat(close, n)
}

var c08ApplyCases = []c08ApplyCase{
	{"assign-without-lhs", "@@\n@@\n-..., err := foo()\n+... := foo()\n", "package p\n\nfunc f() {\n\terr := foo()\n\t_ = err\n}\n"},
	{"assign-without-rhs", "@@\n@@\n-v = foo(...)\n+v = ...\n", "package p\n\nfunc f() {\n\tv = foo()\n}\n"},
	{"import-path-rewritten-then-import-guard", "@@\n@@\n-\"fmt\"\n+1\n\n@@\n@@\n import \"os\"\n\n-foo()\n+bar()\n", "package p\n\nimport (\n\t\"fmt\"\n\t\"os\"\n)\n\nvar v = foo()\n"},
	{"nested-calls", "@@\n@@\n-foo()\n+bar()\n", "package p\n\nvar x = " + c08Nest("f(", ")", "foo()", 24) + "\n"},
	{"nested-blocks", "@@\n@@\n-foo()\n+bar()\n", "package p\n\nfunc f() {\n" + c08Nest("if c {\n", "}\n", "foo()\n", 24) + "}\n"},
	{"struct-to-interface-control", "@@\n@@\n-type T struct{ ... }\n+type T interface{ ... }\n", "package p\n\ntype T struct{ foo int }\n"},
}

var c08ApplySym bool

// StubC08ParseFile: the real parser, then the marker name becomes a solver variable.
func StubC08ParseFile(fset *token.FileSet, filename string, src any, mode parser.Mode) (*ast.File, error) {
	f, err := parser.ParseFile(fset, filename, src, mode)
	if err != nil || c08ApplySym {
		return f, err
	}
	c08ApplySym = true
	s := nd.Str("name", 3)
	for i := 0; i < len(s); i++ {
		nd.Assume(nd.And(s[i] >= 'a', s[i] <= 'z'))
	}
	ast.Inspect(f, func(n ast.Node) bool {
		if id, ok := n.(*ast.Ident); ok && id.Name == "foo" {
			id.Name = s
		}
		return true
	})
	return f, nil
}

func StubC08FormatNode(dst io.Writer, fset *token.FileSet, node any) error {
	_, err := dst.Write([]byte("package p\n"))
	return err
}

func StubC08Process(filename string, src []byte, opt *imports.Options) ([]byte, error) {
	return src, nil
}

func VerifC08Apply() {
	cs := c08ApplyCases[nd.Choose("case", len(c08ApplyCases))]
	c08ApplySym = false
	pf, err := Parse("p.patch", []byte(cs.patch))
	if err != nil {
		nd.Reach("rejected")
		return
	}
	out, err := pf.Apply("a.go", []byte(cs.src))
	nd.Assert((out == nil) != (err == nil), cs.name+": Apply must return a result or an error")
	nd.Reach("returned")
}

// ReplayC08Apply: the same natively, with the real printer.
func ReplayC08Apply() {
	cs := c08ApplyCases[nd.Choose("case", len(c08ApplyCases))]
	name := nd.Str("name", 3)
	pf, err := Parse("p.patch", []byte(cs.patch))
	if err != nil {
		return
	}
	out, err := pf.Apply("a.go", []byte(strings.ReplaceAll(cs.src, "foo", name)))
	if (out == nil) == (err == nil) {
		nd.Fail(cs.name + ": Apply must return a result or an error")
	}
}
