package interp

// Engine side of the harness vocabulary (package nd) and the path runner.

import (
	"fmt"
	"go/token"
	"go/types"
	"os"
	"runtime"
	"strconv"
	"strings"
)

// NdPkg is the import path of the harness vocabulary package.
const NdPkg = "github.com/uber-go/gopatch/internal/zzverif/nd"

func symBoolTerm(v value) string {
	switch v := v.(type) {
	case bool:
		if v {
			return "true"
		}
		return "false"
	case symBool:
		return v.t
	}
	panic(unsupported(fmt.Sprintf("boolean expected, got %T", v)))
}

func ndAssume(c value) {
	switch c := c.(type) {
	case bool:
		if !c {
			panic(abortPath{"assume"})
		}
	case symBool:
		if !X.z.feasible(c.t) {
			panic(abortPath{"assume"})
		}
		X.assert(c.t)
	default:
		panic(unsupported("Assume on non-boolean"))
	}
}

func ndAssert(c value, msg string) {
	X.res.Obligations++
	switch c := c.(type) {
	case bool:
		if !c {
			X.violation("assert", msg, "")
		}
	case symBool:
		X.z.send("(push)")
		X.z.send("(assert (not " + c.t + "))")
		r := X.z.check()
		X.z.send("(pop)")
		var m []SymVar
		if r == "sat" {
			m = X.model("(not " + c.t + ")")
		}
		switch r {
		case "sat":
			X.res.Violations = append(X.res.Violations, Violation{Kind: "assert", Msg: msg, Model: m, Trail: X.trailString()})
			// continue on the side where the assertion holds, if any
			if !X.z.feasible(c.t) {
				panic(abortPath{"assert-all-fail"})
			}
			X.assert(c.t)
		case "unknown":
			X.res.Notes = append(X.res.Notes, "obligation unknown: "+msg)
			X.unknowns++
		}
	default:
		panic(unsupported("Assert on non-boolean"))
	}
}

func init() {
	E := func(name string, f externalFn) { externals[NdPkg+"."+name] = f }
	str := func(v value) string { return valuesToString(v) }
	E("Symbolic", func(fr *frame, args []value) value { return true })
	E("Byte", func(fr *frame, args []value) value {
		return symInt{X.fresh(str(args[0]), 8), types.Uint8}
	})
	E("Int", func(fr *frame, args []value) value {
		return symInt{X.fresh(str(args[0]), 64), types.Int}
	})
	E("Int32", func(fr *frame, args []value) value {
		return symInt{X.fresh(str(args[0]), 32), types.Int32}
	})
	E("Uint32", func(fr *frame, args []value) value {
		return symInt{X.fresh(str(args[0]), 32), types.Uint32}
	})
	E("Bool", func(fr *frame, args []value) value {
		return symBool{"(= " + X.fresh(str(args[0]), 1) + " #b1)"}
	})
	E("Bytes", func(fr *frame, args []value) value {
		n := int(asInt64(args[1]))
		out := make([]value, n)
		for i := range out {
			out[i] = symInt{X.fresh(str(args[0]), 8), types.Uint8}
		}
		return out
	})
	E("Str", func(fr *frame, args []value) value {
		n := int(asInt64(args[1]))
		out := make([]value, n)
		for i := range out {
			out[i] = symInt{X.fresh(str(args[0]), 8), types.Uint8}
		}
		return mkString(out)
	})
	E("Choose", func(fr *frame, args []value) value {
		n := asInt64(args[1])
		if n <= 0 {
			panic(abortPath{"assume"})
		}
		s := symInt{X.fresh(str(args[0]), 64), types.Int}
		X.assert("(bvult " + s.t + " " + bvc(uint64(n), 64) + ")")
		// debugging aid: SYMGO_PIN="case=8,form=2" restricts named choices
		// (never set by registered commands)
		for _, kv := range strings.Split(os.Getenv("SYMGO_PIN"), ",") {
			if k, v, ok := strings.Cut(kv, "="); ok && k == str(args[0]) {
				if pv, err := strconv.ParseUint(v, 10, 64); err == nil {
					X.assert("(= " + s.t + " " + bvc(pv, 64) + ")")
				}
			}
		}
		return int(X.concretise(s))
	})
	E("Concrete", func(fr *frame, args []value) value {
		if s, ok := args[0].(symInt); ok {
			return int(X.concretise(s))
		}
		return args[0]
	})
	E("Param", func(fr *frame, args []value) value {
		if v, ok := X.params[str(args[0])]; ok {
			return int(v)
		}
		return args[1]
	})
	E("Assume", func(fr *frame, args []value) value { ndAssume(args[0]); return nil })
	E("Assert", func(fr *frame, args []value) value { ndAssert(args[0], str(args[1])); return nil })
	E("Reach", func(fr *frame, args []value) value {
		X.res.Reach = append(X.res.Reach, str(args[0]))
		return nil
	})
	E("And", func(fr *frame, args []value) value {
		return mkBool(andTerms([]string{symBoolTerm(args[0]), symBoolTerm(args[1])}))
	})
	E("Or", func(fr *frame, args []value) value {
		return mkBool(orTerms([]string{symBoolTerm(args[0]), symBoolTerm(args[1])}))
	})
	E("Not", func(fr *frame, args []value) value { return mkBool(notTerm(symBoolTerm(args[0]))) })
	E("Implies", func(fr *frame, args []value) value {
		return mkBool(orTerms([]string{notTerm(symBoolTerm(args[0])), symBoolTerm(args[1])}))
	})
	E("Iff", func(fr *frame, args []value) value {
		a, b := symBoolTerm(args[0]), symBoolTerm(args[1])
		switch {
		case a == "true":
			return mkBool(b)
		case a == "false":
			return mkBool(notTerm(b))
		case b == "true":
			return mkBool(a)
		case b == "false":
			return mkBool(notTerm(a))
		}
		return symBool{X.share("(= "+a+" "+b+")", "Bool")}
	})
	E("Ite", func(fr *frame, args []value) value {
		c := symBoolTerm(args[0])
		switch c {
		case "true":
			return args[1]
		case "false":
			return args[2]
		}
		return symInt{"(ite " + c + " " + term(args[1], types.Int) + " " + term(args[2], types.Int) + ")", types.Int}
	})
	E("StrEq", func(fr *frame, args []value) value {
		return mkBool(seqEqTerm(byteSeq(args[0]), byteSeq(args[1])))
	})
	E("IsSym", func(fr *frame, args []value) value {
		it := args[0].(iface)
		return isSym(it.v)
	})
	E("Freeze", func(fr *frame, args []value) value { freeze(args[0]); return nil })
	E("FreezeExcept", func(fr *frame, args []value) value { freeze(args[0], args[1:]...); return nil })
	E("Thaw", func(fr *frame, args []value) value { thawAll(); return nil })
	E("Note", func(fr *frame, args []value) value {
		if len(X.res.Notes) < 20 {
			X.res.Notes = append(X.res.Notes, str(args[0]))
		}
		return nil
	})
}

// RunPath executes the current entry once under the decision prefix.
func (s *Session) RunPath(z *solver, prefix []Decision, maxSteps int, keepPC bool) (res *PathResult) {
	res = &PathResult{}
	// fresh program state (concrete; no solver)
	X = newExplorer(nil)
	X.MaxSteps = 2_000_000_000
	func() {
		defer func() {
			if r := recover(); r != nil {
				res.Status = "inconclusive"
				res.Why = "per-path re-initialisation failed: " + describePanic(r)
			}
		}()
		thawAll()
		s.i.depth = 0
		s.resetPerPath()
	}()
	if res.Status != "" {
		return res
	}
	s.i.unwindKey, s.i.unwindTrace = "", nil
	e := newExplorer(z)
	e.res = res
	e.prefix = prefix
	e.MaxSteps = maxSteps
	e.params = s.Params
	X = e
	z.send("(push)")
	defer func() {
		res.Decisions = len(e.trail)
		res.Steps = e.steps
		res.NVars = len(e.vars)
		if keepPC {
			res.PC = e.pc
			if res.Status == "done" {
				res.Model = e.model("")
			}
		}
		if res.Status == "inconclusive" {
			res.Where = strings.Join(s.i.unwindTrace, " < ")
			if res.Model == nil {
				func() {
					defer func() { recover() }()
					res.Model = e.model("")
				}()
			}
		}
		if e.unknowns > 0 && res.Status == "done" {
			res.Status = "inconclusive"
			res.Why = "solver returned unknown on an obligation"
		}
		z.send("(pop)")
		X = newExplorer(nil)
	}()
	func() {
		defer func() {
			r := recover()
			if r == nil {
				res.Status = "done"
				return
			}
			if re, ok := r.(runtime.Error); ok && !isControl(r) {
				// host run-time error at top level (outside any frame)
				func() {
					defer func() {
						if r2 := recover(); r2 != nil {
							r = r2
						}
					}()
					r = classifyPanic(re)
				}()
			}
			switch r := r.(type) {
			case abortPath:
				switch r.why {
				case "assume", "exhausted", "assert-all-fail":
					res.Status = "assume"
				case "infeasible":
					res.Status = "infeasible"
				default:
					res.Status = "inconclusive"
				}
				res.Why = r.why
			case unsupported:
				res.Status = "inconclusive"
				res.Why = "unsupported: " + string(r)
			case stepBudget:
				res.Status = "steps"
				res.Why = r.where
				e.violation("steps", "step budget exceeded in "+r.where, "")
			case frozenWrite:
				res.Status = "panic"
				res.Why = "write to frozen object: " + r.what
				e.violation("frozen", r.what, "")
			default:
				res.Status = "panic"
				res.Why = panicMessage(r)
				res.Where = strings.Join(s.i.unwindTrace, " < ")
				if os.Getenv("SYMGO_DEBUG") != "" {
					fmt.Fprintf(os.Stderr, "TARGET-PANIC %s\n  at %s\n", res.Why, res.Where)
				}
				if strings.HasPrefix(res.Why, "engine:") {
					res.Status = "inconclusive"
					break
				}
				e.violation("panic", res.Why, "")
			}
		}()
		call(s.i, nil, token.NoPos, s.entry, nil)
	}()
	return res
}
