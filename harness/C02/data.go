package data

import (
	"github.com/uber-go/gopatch/internal/zzverif/nd"
)

type c02Key int

// VerifC02Data: Data is persistent - adding values never changes what an
// older Data returns - and Index agrees with the chain it was built from.
func VerifC02Data() {
	n := nd.Param("N", 4)
	var ds []Data
	var keys []int
	d := New()
	ds = append(ds, d)
	for i := 0; i < n; i++ {
		k := nd.Int("key")
		nd.Assume(k >= 0)
		nd.Assume(k < 3)
		keys = append(keys, k)
		d = WithValue(d, c02Key(k), 100+i)
		ds = append(ds, d)
	}
	// reference: value of key q in version j = index of the last write to q among the first j
	for j := 0; j <= n; j++ {
		for q := 0; q < 3; q++ {
			want := -1
			for i := 0; i < j; i++ {
				want = nd.Ite(keys[i] == q, 100+i, want)
			}
			var got int
			ok := Lookup(ds[j], c02Key(q), &got)
			nd.Assert(nd.Iff(ok, want != -1), "Lookup reports a key that was never added to this version (or misses one)")
			if ok {
				nd.Assert(got == want, "an older Data value changed after later additions, or Lookup returns a stale value")
			}
			var got2 int
			ok2 := Lookup(Index(ds[j]), c02Key(q), &got2)
			nd.Assert(ok2 == ok && (!ok || got2 == got), "Index disagrees with the Data it indexes")
		}
	}
	nd.Reach("done")
}
