package patch

// Finding 2 (C05): in a patch with two changes, the second change deletes or
// displaces comments of code that neither change touches. The first change
// puts a long identifier where a short expression was; the node keeps the
// position of the old expression, so its extent (Pos .. Pos+len(name)) reaches
// past the old expression into the lines that follow. When the second change
// replaces that identifier, everything in that extent is recorded as changed:
// comments in it are deleted and lines in it are merged.
//
// Goes in directory: patch/

import (
	"strings"
	"testing"
)

func TestFinding2_SecondChangeDamagesFollowingDeclaration(t *testing.T) {
	const patch = `@@
@@
-load()
+defaultConfigurationLoader.Load()

@@
@@
-defaultConfigurationLoader.Load()
+loader().Load()
`
	const src = `package a

import _ "embed"

var cfg = load()

//go:embed data.txt
var data string

func f() {
	x := load()
	// explain y
	y := 2 // two
	_, _ = x, y
}
`
	p, err := Parse("p.patch", []byte(patch))
	if err != nil {
		t.Fatal(err)
	}
	outb, err := p.Apply("a.go", []byte(src))
	if err != nil {
		t.Fatal(err)
	}
	out := string(outb)

	// The declaration of data is not touched by the patch. Its go:embed
	// directive must stay on its own line right above it.
	if !strings.Contains(out, "\n//go:embed data.txt\nvar data string\n") {
		t.Errorf("the //go:embed directive of the untouched declaration \"var data string\" was moved or deleted:\n%s", out)
	}
	// The comment of the untouched statement y := 2 must survive.
	if !strings.Contains(out, "// explain y") {
		t.Errorf("comment of the untouched statement \"y := 2\" was deleted:\n%s", out)
	}
}
