package main

import (
	"fmt"
	"strings"

	"github.com/uber-go/gopatch/internal/zzverif/nd"
	"github.com/uber-go/gopatch/patch"
)

// VerifC12Modes runs the same symbolic environment under the default mode,
// --print-only, --diff and the library API: dry-run modes never write, all
// modes produce the same bytes, descriptions go to stderr only and only for
// files to which a described change applied.
func VerifC12Modes() {
	nfiles := nd.Param("FILES", 2)
	nch := []int{2}
	if nd.Choose("patchshape", 2) == 1 {
		nch = []int{1, 1}
	}
	frAllow.generated = true
	frAllow.parseErr = true
	frAllow.replaceErr = nd.Param("REPLACEERR", 0) == 1
	frAllow.noParse = true
	frEnv = frNewEnv(nfiles, nch)
	e := frEnv
	skipimports, skipgenerated, verbose := nd.Bool("skipimports"), nd.Bool("skipgenerated"), nd.Bool("verbose")
	both := nd.Bool("both") // --diff and --print-only given together in the dry runs

	type result struct {
		err     error
		effects []frEffect
	}
	run := func(diff, print bool) result {
		o := &options{Patches: []string{"p.patch"}, Diff: diff, Print: print, SkipImportProcessing: skipimports, SkipGenerated: skipgenerated, Verbose: verbose}
		o.Args.Patterns = []string{"."}
		e.opts = o
		e.effects = nil
		e.cur = -1
		cmd := frCmd()
		err := cmd.Run(nil)
		return result{err, e.effects}
	}
	def := run(false, false)
	pr := run(both, true)
	df := run(true, both)

	pick := func(r result, i int, kind string) (out [][]byte) {
		for _, fx := range r.effects {
			if fx.file == i && fx.kind == kind {
				if kind == "stdout" && len(fx.data) > 0 && fx.data[0] == 'O' {
					continue // echo of an unmatched file
				}
				out = append(out, fx.data)
			}
		}
		return
	}
	for _, r := range []result{pr, df} {
		for _, fx := range r.effects {
			nd.Assert(fx.kind != "write" && fx.kind != "fsmut", "a dry-run mode (--diff / --print-only) wrote a file")
		}
	}
	for i := 0; i < nfiles; i++ {
		w := pick(def, i, "write")
		p := pick(pr, i, "stdout")
		d := pick(df, i, "diff")
		if both {
			// with both flags --diff wins in both dry runs
			p = pick(pr, i, "diff")
		}
		nd.Assert(len(w) <= 1 && len(p) <= 1 && len(d) <= 1, fmt.Sprintf("file %d emitted more than once in one mode", i))
		nd.Assert(len(w) == len(p) && len(p) == len(d), fmt.Sprintf("file %d: modes disagree on whether there is a result", i))
		if len(w) == 1 && len(p) == 1 && len(d) == 1 {
			nd.Assert(frBytesEq(w[0], p[0]), fmt.Sprintf("file %d: bytes written in place differ from --print-only", i))
			nd.Assert(frBytesEq(w[0], d[0]), fmt.Sprintf("file %d: bytes written in place differ from the --diff result", i))
			for _, fx := range df.effects {
				if fx.file == i && fx.kind == "diff" {
					nd.Assert(frBytesEq(fx.orig, e.content[i]), fmt.Sprintf("file %d: --diff is not against the original bytes", i))
				}
			}
		}
	}
	// descriptions
	for _, r := range []result{def, pr, df} {
		for _, fx := range r.effects {
			if fx.kind != "stdout" && fx.kind != "stderr" {
				continue
			}
			s := string(fx.data)
			if fx.kind == "stdout" && len(fx.data) > 0 && (fx.data[0] == 'O' || fx.data[0] == 'I' || fx.data[0] == 'N') {
				continue // file bytes
			}
			k := strings.Index(s, ":desc-p")
			if k < 0 {
				continue
			}
			nd.Assert(fx.kind == "stderr", "a description was printed to stdout")
			var pi, ci int
			fmt.Sscanf(s[k:], ":desc-p%dc%d", &pi, &ci)
			idx := ci
			for q := 0; q < pi; q++ {
				idx += nch[q]
			}
			fi := -1
			fmt.Sscanf(s, "f%d.go", &fi)
			if fi >= 0 && fi < nfiles && idx < len(e.match[fi]) {
				m := e.match[fi][idx]
				nd.Assert(nd.And(m.set, m.val), fmt.Sprintf("file %d: description of a change that did not apply to it", fi))
				// a change whose rewrite failed did not apply either: the file is left as it was
				failed := false
				for _, re := range e.replaceErr[fi] {
					if re.set {
						failed = nd.Or(failed, re.val)
					}
				}
				nd.Assert(nd.Not(failed), fmt.Sprintf("file %d: description printed although rewriting the file failed (nothing was applied to it)", fi))
			} else {
				nd.Assert(false, "description for an unknown file or change")
			}
		}
	}
	nd.Assert((def.err == nil) == (pr.err == nil) && (pr.err == nil) == (df.err == nil), "modes disagree on success")

	// library API on file 0: same bytes as the CLI (import processing on)
	if !skipimports {
		var pt strings.Builder
		total := 0
		for _, n := range nch {
			total += n
		}
		for k := 0; k < total; k++ {
			fmt.Fprintf(&pt, "@@\n@@\n-a%d()\n+b%d()\n\n", k, k)
		}
		pf, perr := patch.Parse("p.patch", []byte(pt.String()))
		nd.Assert(perr == nil, "harness patch does not parse")
		e.effects = nil
		e.cur = 0
		got, aerr := pf.Apply(e.names[0], e.content[0])
		w := pick(def, 0, "write")
		gen := nd.And(skipgenerated, nd.And(e.generated[0].set, e.generated[0].val))
		if len(w) == 1 {
			nd.Assert(aerr == nil && frBytesEq(got, w[0]), "library API result differs from the bytes written in place")
		} else if aerr == nil {
			// CLI emitted nothing for file 0: unmatched (API returns the input) or skipped as generated
			nd.Assert(nd.Or(gen, frBytesEq(got, e.content[0])), "library API returned new bytes where the CLI produced none")
		}
		var popts []string
		for _, fx := range append(append([]frEffect{}, def.effects...), e.effects...) {
			if fx.kind == "process" {
				popts = append(popts, fx.name)
			}
		}
		for _, o := range popts {
			nd.Assert(o == popts[0], "CLI and API pass different options to imports.Process")
		}
	}
	nd.Reach("done")
}

// ReplayC12Modes realises the model and runs the real entry point in the
// three modes on identical trees.
func ReplayC12Modes() {
	nch := []int{2}
	if v, _ := nd.Lookup("patchshape"); v == 1 {
		nch = []int{1, 1}
	}
	both := frBit("both")
	base := frScenarioFromModel(nd.Param("FILES", 2), nch)
	for _, m := range [][2]bool{{false, false}, {both, true}, {true, both}} {
		s := *base
		s.diff, s.print = m[0], m[1]
		s.frCheckNative(s.runNative())
	}
}
