package patch

// Goes in: patch/ (package patch).
//
// C03 finding 1: a match site that lies inside the code bound to a
// metavariable of an enclosing match site is not rewritten.

import (
	"strings"
	"testing"
)

func TestC03H2Finding1_SiteInsideMetavariableBinding(t *testing.T) {
	const patchSrc = "@@\nvar x expression\n@@\n-foo(x)\n+bar(x)\n"
	const src = `package p

func f() {
	foo(foo(1))
	foo(func() {
		foo(2)
	})
	a := foo(foo(3) + foo(4))
	_ = a
}
`
	pf, err := Parse("nested.patch", []byte(patchSrc))
	if err != nil {
		t.Fatal(err)
	}
	out, err := pf.Apply("a.go", []byte(src))
	if err != nil {
		t.Fatal(err)
	}
	// Every foo(E) is a site of the '-' pattern and bar(E) is admissible
	// wherever foo(E) is, so no foo( may be left.
	if strings.Contains(string(out), "foo(") {
		t.Errorf("sites inside the binding of x were left unchanged:\n%s", out)
	}
	for _, want := range []string{"bar(bar(1))", "bar(2)", "bar(bar(3) + bar(4))"} {
		if !strings.Contains(string(out), want) {
			t.Errorf("output does not contain %q:\n%s", want, out)
		}
	}
}
