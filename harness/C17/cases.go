package patch

// The C17 catalogue: comment-rich files and the patches applied to them. Data
// only, so that it can be injected into several packages.

type c17Case struct {
	name    string
	patch   string
	marker  string // identifier whose occurrences are the candidate sites
	src     string
	imports bool   // the patch adds or removes an import: import declarations count as rewritten when anything matched
	fixed   string // a function the patch always rewrites (second change of a two-change patch)
}

var c17Cases = []c17Case{
	{name: "expr-in-funcs", marker: "old",
		patch: "@@\nvar x expression\n@@\n-old(x)\n+new(x)\n",
		src: `// Copyright header.
// Second header line.

//go:build linux

// Package p is documented.
package p // trailing the package clause

import "fmt" // why fmt

// free-standing comment after the imports

// a is documented.
// On two lines.
func a() int {
	// leading comment in a
	v := old(1) // end of line at the site
	// between statements in a
	return v /* block in a */ + 1
} // trailing a

// free-standing comment between a and b

// b is documented.
func b() {
	fmt.Println(old( /* inside the call */ 2)) // eol b
	// last comment in b
}

/* block doc of c */
func c() int { return old(3) } // eol c

//go:generate echo hi

// d is documented.
func d() (r int) {
	defer func() {
		// inside closure
		r = old(4)
	}()
	return
}

// trailing file comment
`},
	{name: "stmt-delete", marker: "old",
		patch: "@@\nvar f identifier\nvar x expression\n@@\n func f() {\n   ...\n-  old(x)\n   ...\n }\n",
		src: `package p

// a doc
func a() {
	// before site
	old(1) // eol at deleted statement
	// after site
	keep()
}

// between a and b

// b doc
func b() {
	keep() // eol keep
	old(2)
}

// c doc
func c() {
	old(3)
	// only a comment left
}

// d doc
func d() { /* empty d */ }
`},
	{name: "decl-replace", marker: "Old",
		patch: "@@\n@@\n-type Old struct{}\n+type Old struct{ n int }\n",
		src: `package p

// v doc
var v = 1 // eol v

// Old is documented.
type Old struct{} // eol first

// between the two

// w doc
var w = func() int {
	// inside w
	return 2
}

// second doc
type Old struct{}

// z doc
const z = 3 // eol z
`},
	{name: "elision-block", marker: "old",
		patch: "@@\nvar f identifier\n@@\n func f() {\n   ...\n-  old()\n+  new()\n   ...\n }\n",
		src: `package p

// a doc
func a() {
	// a first
	pre() // eol pre
	old() // eol site
	// a last
	post()
}

// b doc
func b() {
	old()
}

// between b and c

// c doc
func c() {
	// c only
	pre()
	old()
}
`},
	{name: "add-import", marker: "old", imports: true,
		patch: "@@\nvar x expression\n@@\n+import \"errors\"\n\n-old(x)\n+errors.New(x)\n",
		src: `// header
package p

// a doc
var a = old("x") // eol a

// b doc
var b = func() error {
	// inside b
	return nil
}

// c doc
var c = old("y")

// d doc
func d() error {
	// inside d
	return old("z") // eol d
}
`},
	{name: "delete-import", marker: "New", imports: true,
		patch: "@@\nvar x expression\n@@\n-import \"errors\"\n\n-errors.New(x)\n+fail(x)\n",
		src: `// header
package p

import "errors" // the only import

// a doc
var a = errors.New("x") // eol a

// b doc
var b = func() int {
	// inside b
	return 1
}

// c doc
var c = errors.New("y")

// d doc
var d = 2 // eol d
`},
	{name: "decl-kind-change", marker: "old",
		patch: "@@\n@@\n-func old() {}\n+var old = func() {}\n",
		src: `// header k
//go:build !ignore

// Package p doc k.
package p

import "fmt" // eol import k

// first doc
func old() {}

// u doc
func u() {
	// inside u
	fmt.Println() // eol u
}

// middle doc
func old() {} // eol middle

// w doc
var w = 1 // eol w

// last doc
func old() {}
`},
	{name: "import-group", marker: "New", imports: true,
		patch: "@@\nvar x expression\n@@\n-import \"errors\"\n\n-errors.New(x)\n+fail(x)\n",
		src: `// header g
package p // eol package g

// after package g

import (
	"bytes" // eol bytes
	// above errors
	"errors"
)

// a doc g
var a = errors.New("x") // eol a g

// b doc g
var b bytes.Buffer // eol b g
`},
	{name: "import-group-first", marker: "New", imports: true,
		patch: "@@\nvar x expression\n@@\n-import \"errors\"\n\n-errors.New(x)\n+fail(x)\n",
		src: `// header h
package p

import (
	"errors"
	"os" // eol os
)

// a doc h
func a() error {
	// inside a h
	return errors.New(os.Args[0])
}

// b doc h
func b() {} // eol b h
`},
	{name: "first-decl-kind-change", marker: "old",
		patch: "@@\n@@\n-func old() {}\n+var old = func() {}\n",
		src: `package p // trailing the clause f

func old() {}

// keep doc f
func keep() {}
`},
	{name: "single-line-imports", marker: "New", imports: true,
		patch: "@@\nvar x expression\n@@\n-import \"errors\"\n\n-errors.New(x)\n+fail(x)\n",
		src: `package p

import "a" // why a
import "errors"
import "b" // why b

var _ = a.A + b.B

// e doc s
var e = errors.New("x") // eol e s
`},
	{name: "directive-neighbours", marker: "old",
		patch: "@@\n@@\n-func old() {}\n+var old = func() {}\n",
		src: `package p

//go:generate stringer -type=T
type T int //nolint:unused

func old() {}

//go:noinline
func keep() {} //nolint:deadcode

//
var empty = 1

func old() {}

//line x.go:10
var z = 2
`},
	{name: "package-clause-trailing-lines", marker: "old",
		patch: "@@\n@@\n-func old() {}\n+var old = func() {}\n",
		src: `package p // import "example.com/p"
//go:generate stringer -type=T
// second note t

func old() {}

// keep doc t
func keep() {}
`},
	{name: "two-changes-emptied-group", marker: "old", fixed: "f",
		patch: "@@\nvar a, b expression\n@@\n-a + b\n+a - b\n\n@@\n@@\n-old(2)\n+renewed(2)\n",
		src: `package p

// f doc e
func f() int {
	return old(2) +
		// about y
		y
}

// g doc e
func g() int { return old(2) } // eol g e
`},
	{name: "two-changes-delete-in-elided-part", marker: "old", fixed: "work",
		patch: "@@\n@@\n-x := old()\n+x := renewed()\n\n@@\n@@\n-cleanup(...)\n done()\n",
		src: `package p

// work doc d
func work() {
	x := old()
	use(x) // eol use d
	cleanup(a, // first argument d
		b)
	done()
}

// other doc d
func other() { y := old(); _ = y } // eol other d
`},
	{name: "pos-transition-with-elision", marker: "nosuchname", fixed: "one,two",
		patch: "@@\nvar f, T, X identifier\n@@\n func f() {\n   ...\n-  type T X\n+  type T = X\n   ...\n }\n",
		src: `// header p
package p

func one() {
	pre()
	type a int
	post()
}

// mid doc p
func mid() {
	// inside mid p
	keep() // eol mid p
}

func two() {
	pre()
	type b string
	post()
}

// tail doc p
var tail = 1
`},
	{name: "plus-side-comments-on-comment-free-file", marker: "Old",
		patch: "@@\n@@\n-var Old = 1\n+var Old = 2 // two\n\n@@\n@@\n-type Old struct{}\n+type Old struct {\n+\t// B doc\n+\tB int // B trailing\n+}\n",
		src: `package p

var Old = 1

type Old struct{}

func keep() {}
`},
	{name: "import-merge-next-decl", marker: "foo", imports: true,
		patch: "@@\n@@\n+import \"example.com/pkg\"\n\n-foo()\n+pkg.Bar()\n",
		src: `package a

import "fmt"
import "strings"

// U0 doc m
type U0 interface {
	// U0 inside 1 m
	M(fmt.Stringer, strings.Builder) // U0 inside 2 m
} // U0 trailing m

// T1 doc m
func T1() {
	foo()
}
`},
	{name: "import-merge-then-second-change", marker: "nosuchname", imports: true, fixed: "T1,T3",
		patch: "@@\n@@\n+import \"example.com/pkg\"\n\n-foo()\n+pkg.Bar()\n\n@@\nvar x identifier\n@@\n-var x = OLD\n+const x = NEW\n",
		src: `package a

import "fmt"
import "strings"

type U0 interface {
	M(fmt.Stringer, strings.Builder) // U0 mt s
}

func T1() {
	foo()
}

var T3 = OLD
`},
	{name: "three-changes-emptied-group-import-delete", marker: "nosuchname", imports: true, fixed: "a,f",
		patch: "@@\n@@\n-var (\n-  a = 1\n-  b = 2\n-)\n+var a, b = 1, 2\n\n@@\nvar x expression\n@@\n-import \"x/foo\"\n+import \"y/bar\"\n\n-foo.Do(x)\n+bar.Do(x)\n\n@@\nvar x expression\n@@\n-import \"os\"\n\n-os.Exit(x)\n+exit(x)\n",
		src: `package a // pc i
import (
	"os" // os c i
	"x/foo" // foo c i
)
var (
	a = 1
	b = 2
)
func f() {
	foo.Do(1) // do i
	os.Exit(2) // ex i
}

// keep doc i
func keep() {} // keep eol i
`},
	{name: "two-changes-package-rename", marker: "nosuchname", fixed: "T0,T1",
		patch: "@@\n@@\n-package a\n+package b\n\n-foo()\n+bar()\n\n@@\nvar x identifier\n@@\n-var (\n-  x = OLD\n-)\n+const (\n+  x = NEW\n+)\n",
		src: `// H header r

// P doc r
package a // P trailing r
// P after r

var (
	T0 = OLD
)

func T1() { foo() }

// keep doc r
func keep() {}
`},
	{name: "line-directive-multi-line-change", marker: "nosuchname", fixed: "f",
		patch: "@@\nvar x expression\n@@\n-if x != nil {\n-  return x\n-}\n-return nil\n+return x\n",
		src: `package a

// keep doc l
func keep() {} // keep eol l

//line gen.y:1000
func f() error {
	err := g()
	if err != nil {
		return err
	}
	return nil
}

// after doc l
func after() {}
`},
	{name: "two-changes", marker: "old", fixed: "gone",
		patch: "@@\nvar x expression\n@@\n-old(x)\n+mid(x)\n\n@@\n@@\n-func gone() {}\n+var gone = func() {}\n",
		src: `package p

// a doc
func a() { old(1) } // trailing a

// gone doc
func gone() {}

// b is documented.
func b() {
	// inside b
	old(2)
}

// c doc
func c() {} // trailing c
`},
}
