package patch

// C11 through the library entry point: the real patch.Parse and
// (*File).Apply - including the parser mode gopatch chooses for target files,
// on which the "is this name still a reference to the package?" decision
// depends (resolved local identifiers are not package references).
//
// The file has a local variable and a free qualifier whose names are solver
// variables of the package name's length: the import on the '-' line must be
// gone unless the FREE qualifier still spells the package name; a local
// variable that happens to spell it never keeps the import alive.

import (
	"go/ast"
	"go/parser"
	"go/token"
	"io"
	"strconv"

	"github.com/uber-go/gopatch/internal/zzverif/nd"
	"golang.org/x/tools/imports"
)

type c11Case struct {
	name, patch, src string
	gone             string // import path on the '-' line
	added            string // import path on the '+' line ("" = none)
	pkg              string // name the '-' import is referred to by
	keep             []string
	stays            bool // the '-'/context import is still referred to by the rewritten code: it must stay
	addedUnnamed     bool // the '+' import is unnamed: an unnamed spec of that path must be present exactly once
}

var c11APICases = []c11Case{
	{name: "replace-import-shadowing-param",
		patch: "@@\nvar x expression\n@@\n-import \"example.com/log\"\n+import \"example.com/zap\"\n\n-log.Print(x)\n+zap.Print(x)\n",
		src:   "package p\n\nimport (\n\t\"fmt\"\n\n\t\"example.com/log\"\n)\n\ntype logger struct{ prefix string }\n\nfunc describe(lcl *logger) string { return lcl.prefix + fmt.Sprint(1) }\n\nfunc use() {\n\tlog.Print(\"a\")\n\tfre.Other()\n}\n",
		gone:  "example.com/log", added: "example.com/zap", pkg: "log", keep: []string{"fmt"}},
	{name: "context-import-versionlike-path",
		patch: "@@\nvar x expression\n@@\n import \"k8s.io/api/core/v1\"\n\n-v1.Old(x)\n+v1.New(x)\n",
		src:   "package p\n\nimport (\n\t\"fmt\"\n\n\t\"k8s.io/api/core/v1\"\n)\n\nfunc f() {\n\tlc := 1\n\t_ = lc\n\tfmt.Println(v1.Old(2))\n\tfr.Other()\n}\n",
		gone:  "k8s.io/api/core/v1", pkg: "v1", keep: []string{"fmt"}, stays: true},
	{name: "minus-import-versionlike-path-still-used",
		patch: "@@\nvar x expression\n@@\n-import \"k8s.io/api/core/v1\"\n\n-v1.Old(x)\n+fresh(x)\n",
		src:   "package p\n\nimport (\n\t\"fmt\"\n\n\t\"k8s.io/api/core/v1\"\n)\n\nfunc f() {\n\tlc := 1\n\t_ = lc\n\tfmt.Println(v1.Old(2), v1.Container{})\n\tfr.Other()\n}\n",
		gone:  "k8s.io/api/core/v1", pkg: "v1", keep: []string{"fmt"}, stays: true},
	{name: "plus-unnamed-while-aliased",
		patch: "@@\nvar x expression\n@@\n-import \"github.com/pkg/errors\"\n+import \"errors\"\n\n-errors.Errorf(x)\n+errors.New(x)\n",
		src:   "package p\n\nimport (\n\t\"fmt\"\n\tstderrors \"errors\"\n\n\t\"github.com/pkg/errors\"\n)\n\nfunc f() error {\n\tfmt.Println(stderrors.ErrUnsupported)\n\treturn errors.Errorf(\"x\")\n}\n",
		gone:  "github.com/pkg/errors", added: "errors", pkg: "errors", keep: []string{"fmt"}, addedUnnamed: true},
	{name: "context-blank-import",
		patch: "@@\n@@\n import _ \"embed\"\n\n-var data string\n+var data []byte\n",
		src:   "package p\n\nimport (\n\t_ \"embed\"\n\t\"fmt\"\n)\n\n//go:embed hello.txt\nvar data string\n\nfunc f() {\n\tlc := 1\n\t_ = lc\n\tfmt.Println(data)\n\tfr.Other()\n}\n",
		gone:  "embed", pkg: "em", keep: []string{"fmt"}, stays: true},
	{name: "context-dot-import",
		patch: "@@\nvar x expression\n@@\n import . \"math\"\n\n-Sqrt(x)\n+Cbrt(x)\n",
		src:   "package p\n\nimport (\n\t\"fmt\"\n\t. \"math\"\n)\n\nfunc f() {\n\tlc := 1\n\t_ = lc\n\tfmt.Println(Sqrt(1), Abs(2))\n\tfr.Other()\n}\n",
		gone:  "math", pkg: "ma", keep: []string{"fmt"}, stays: true},
	{name: "delete-import-shadowing-var",
		patch: "@@\nvar x expression\n@@\n-import \"errors\"\n\n-errors.New(x)\n+fail(x)\n",
		src:   "package p\n\nimport (\n\t\"errors\"\n\t\"os\"\n)\n\nfunc f() error {\n\tlclvar := os.Args\n\t_ = lclvar.Len\n\treturn errors.New(\"x\")\n}\n\nvar g = frevar.Is\n",
		gone:  "errors", pkg: "errors", keep: []string{"os"}},
}

type c11State struct {
	cs        c11Case
	fout      *ast.File
	freeIsPkg bool
	done      bool
}

var c11 *c11State

func c11Sym(tag string, n int) string {
	s := nd.Str(tag, n)
	for i := 0; i < len(s); i++ {
		nd.Assume(nd.And(s[i] >= 'a', s[i] <= 'z'))
	}
	return s
}

// StubC11ParseFile: the real parser in the mode gopatch asked for, then the
// local and the free qualifier get symbolic names.
func StubC11ParseFile(fset *token.FileSet, filename string, src any, mode parser.Mode) (*ast.File, error) {
	f, err := parser.ParseFile(fset, filename, src, mode)
	if err != nil || c11 == nil || c11.done {
		return f, err
	}
	st := c11
	st.done = true
	n := len(st.cs.pkg)
	local := c11Sym("local", n)
	free := c11Sym("free", n)
	hasFree := false
	ast.Inspect(f, func(nn ast.Node) bool {
		if id, ok := nn.(*ast.Ident); ok {
			switch id.Name {
			case "lcl", "lclvar", "lc":
				id.Name = local
			case "fre", "frevar", "fr":
				id.Name = free
				hasFree = true
			}
		}
		return true
	})
	st.freeIsPkg = hasFree && nd.StrEq(free, st.cs.pkg)
	return f, nil
}

func StubC11FormatNode(dst io.Writer, fset *token.FileSet, node any) error {
	if c11 != nil {
		if f, ok := node.(*ast.File); ok {
			c11.fout = f
		}
	}
	_, err := dst.Write([]byte("package p\n"))
	return err
}

func StubC11Process(filename string, src []byte, opt *imports.Options) ([]byte, error) {
	return src, nil
}

func c11Count(f *ast.File, path string) int {
	n := 0
	for _, d := range f.Decls {
		gd, ok := d.(*ast.GenDecl)
		if !ok || gd.Tok != token.IMPORT {
			continue
		}
		for _, s := range gd.Specs {
			if p, err := strconv.Unquote(s.(*ast.ImportSpec).Path.Value); err == nil && p == path {
				n++
			}
		}
	}
	return n
}

// VerifC11API is the entry point.
func VerifC11API() {
	cs := c11APICases[nd.Choose("case", len(c11APICases))]
	pf, err := Parse("p.patch", []byte(cs.patch))
	if err != nil {
		panic("harness: catalogue patch is rejected: " + err.Error())
	}
	c11 = &c11State{cs: cs}
	st := c11
	_, err = pf.Apply("a.go", []byte(cs.src))
	nd.Assert(err == nil, cs.name+": Apply failed")
	if err != nil || st.fout == nil {
		nd.Assert(st.fout != nil, cs.name+": nothing was rewritten although the pattern occurs")
		return
	}
	gone := c11Count(st.fout, cs.gone)
	if cs.stays {
		nd.Assert(gone == 1, cs.name+": an import the patch leaves in place (it is on a context line, or the rewritten code still refers to it) was removed (or duplicated)")
		for _, k := range cs.keep {
			nd.Assert(c11Count(st.fout, k) == 1, cs.name+": an import the patch does not mention was added, removed or duplicated: "+k)
		}
		nd.Reach("done")
		return
	}
	nd.Assert(nd.Implies(nd.Not(st.freeIsPkg), gone == 0), cs.name+": the '-' import survives although nothing refers to the package any more (a local variable is not a reference)")
	nd.Assert(nd.Implies(st.freeIsPkg, gone == 1), cs.name+": the '-' import was removed although remaining code still refers to the package")
	if cs.added != "" && !cs.addedUnnamed {
		nd.Assert(c11Count(st.fout, cs.added) == 1, cs.name+": the '+' import is not present exactly once")
	}
	if cs.addedUnnamed {
		nd.Assert(c11CountUnnamed(st.fout, cs.added) == 1, cs.name+": the unnamed '+' import is not present exactly once (an existing import of the path under another name is not it)")
	}
	for _, k := range cs.keep {
		nd.Assert(c11Count(st.fout, k) == 1, cs.name+": an import the patch does not mention was added, removed or duplicated: "+k)
	}
	nd.Reach("done")
}

func c11CountUnnamed(f *ast.File, path string) int {
	n := 0
	for _, d := range f.Decls {
		gd, ok := d.(*ast.GenDecl)
		if !ok || gd.Tok != token.IMPORT {
			continue
		}
		for _, s := range gd.Specs {
			is := s.(*ast.ImportSpec)
			if p, err := strconv.Unquote(is.Path.Value); err == nil && p == path && is.Name == nil {
				n++
			}
		}
	}
	return n
}

// ReplayC11API: the model's names are written into the source text and the
// real Apply (with go/format and imports.Process) runs; the imports of the
// printed result are checked.
func ReplayC11API() {
	cs := c11APICases[nd.Choose("case", len(c11APICases))]
	n := len(cs.pkg)
	local := nd.Str("local", n)
	free := nd.Str("free", n)
	src := []byte(cs.src)
	fset := token.NewFileSet()
	f, err := parser.ParseFile(fset, "a.go", cs.src, 0)
	if err != nil {
		panic(err)
	}
	tf := fset.File(f.Pos())
	grow := 0
	var out []byte
	last := 0
	ast.Inspect(f, func(nn ast.Node) bool {
		if id, ok := nn.(*ast.Ident); ok {
			repl := ""
			switch id.Name {
			case "lcl", "lclvar", "lc":
				repl = local
			case "fre", "frevar", "fr":
				repl = free
			}
			if repl != "" {
				off := tf.Offset(id.Pos())
				out = append(out, src[last:off]...)
				out = append(out, repl...)
				last = off + len(id.Name)
				grow += len(repl) - len(id.Name)
			}
		}
		return true
	})
	out = append(out, src[last:]...)
	pf, err := Parse("p.patch", []byte(cs.patch))
	if err != nil {
		panic(err)
	}
	res, err := pf.Apply("a.go", out)
	if err != nil {
		nd.Fail(cs.name + ": Apply failed: " + err.Error())
		return
	}
	g, err := parser.ParseFile(token.NewFileSet(), "out.go", res, parser.ImportsOnly)
	if err != nil {
		nd.Fail(cs.name + ": output does not parse: " + err.Error())
		return
	}
	gone := c11Count(g, cs.gone)
	if cs.stays {
		if gone != 1 {
			nd.Fail(cs.name + ": an import the patch leaves in place (it is on a context line, or the rewritten code still refers to it) was removed (or duplicated)")
		}
		return
	}
	if free != cs.pkg && gone != 0 {
		nd.Fail(cs.name + ": the '-' import survives although nothing refers to the package any more (a local variable is not a reference)")
	}
	if free == cs.pkg && gone != 1 {
		nd.Fail(cs.name + ": the '-' import was removed although remaining code still refers to the package")
	}
	if cs.added != "" && !cs.addedUnnamed && c11Count(g, cs.added) != 1 {
		nd.Fail(cs.name + ": the '+' import is not present exactly once")
	}
	if cs.addedUnnamed && c11CountUnnamed(g, cs.added) != 1 {
		nd.Fail(cs.name + ": the unnamed '+' import is not present exactly once (an existing import of the path under another name is not it)")
	}
	for _, k := range cs.keep {
		if c11Count(g, k) != 1 {
			nd.Fail(cs.name + ": an import the patch does not mention was added, removed or duplicated: " + k)
		}
	}
}
