package main

// C12 (library API vs command line): the two copies of the rewriting
// pipeline - patchRunner.Apply in package main and (*patch.File).Apply in
// package patch - hand the SAME tree to the printer: same declarations,
// same surviving comments in the same order. Runs over the C17 catalogue
// (comment-rich files, one- and two-change patches); the names at the
// candidate sites are solver variables shared by both pipelines, so every
// subset of rewritten sites is compared.
//
// Stubs: go/parser.ParseFile (real parser, then the site names become
// symbolic), go/format.Node (captures the tree the API is about to print),
// imports.Process (identity).

import (
	"fmt"
	"go/ast"
	"go/parser"
	"go/token"
	"io"
	"reflect"

	"github.com/uber-go/gopatch/internal/engine"
	"github.com/uber-go/gopatch/internal/parse"
	"github.com/uber-go/gopatch/internal/zzverif/nd"
	gopatch "github.com/uber-go/gopatch/patch"
	"golang.org/x/tools/imports"
)

type c12State struct {
	cs      c17Case
	names   []string // symbolic site names, shared by both pipelines
	apiTree *ast.File
	active  bool
}

var c12 *c12State

// StubC12ParseFile: the real parser; target files get symbolic site names.
func StubC12ParseFile(fset *token.FileSet, filename string, src any, mode parser.Mode) (*ast.File, error) {
	f, err := parser.ParseFile(fset, filename, src, mode)
	if err != nil || c12 == nil || !c12.active || filename != "a.go" {
		return f, err
	}
	st := c12
	k := 0
	for _, d := range f.Decls {
		ast.Inspect(d, func(n ast.Node) bool {
			id, ok := n.(*ast.Ident)
			if !ok || id.Name != st.cs.marker {
				return true
			}
			if k >= len(st.names) {
				s := nd.Str(fmt.Sprintf("site%d", k), len(id.Name))
				for j := 0; j < len(s); j++ {
					nd.Assume(nd.Or(nd.And(s[j] >= 'a', s[j] <= 'z'), nd.And(s[j] >= 'A', s[j] <= 'Z')))
				}
				st.names = append(st.names, s)
			}
			id.Name = st.names[k]
			k++
			return true
		})
	}
	return f, nil
}

func StubC12FormatNode(dst io.Writer, fset *token.FileSet, node any) error {
	if c12 != nil && c12.active {
		if f, ok := node.(*ast.File); ok {
			c12.apiTree = f
		}
	}
	_, err := dst.Write([]byte("package p\n"))
	return err
}

func StubC12Process(filename string, src []byte, opt *imports.Options) ([]byte, error) {
	return src, nil
}

var (
	c12ObjType   = reflect.TypeOf((*ast.Object)(nil))
	c12ScopeType = reflect.TypeOf((*ast.Scope)(nil))
	c12CGType    = reflect.TypeOf((*ast.CommentGroup)(nil))
	c12PosType   = reflect.TypeOf(token.Pos(0))
)

// c12Equal: structural equality of two trees; positions, comments and objects ignored.
func c12Equal(a, b reflect.Value) bool {
	if a.Kind() == reflect.Interface || b.Kind() == reflect.Interface {
		if a.Kind() == reflect.Interface {
			if a.IsNil() {
				return (b.Kind() == reflect.Interface || b.Kind() == reflect.Ptr) && b.IsNil()
			}
			a = a.Elem()
		}
		if b.Kind() == reflect.Interface {
			if b.IsNil() {
				return a.Kind() == reflect.Ptr && a.IsNil()
			}
			b = b.Elem()
		}
	}
	if a.Type() != b.Type() {
		return false
	}
	switch a.Kind() {
	case reflect.Ptr:
		switch a.Type() {
		case c12ObjType, c12ScopeType, c12CGType:
			return true
		}
		if a.IsNil() || b.IsNil() {
			return a.IsNil() == b.IsNil()
		}
		return c12Equal(a.Elem(), b.Elem())
	case reflect.Slice:
		if a.Len() != b.Len() {
			return false
		}
		r := true
		for i := 0; i < a.Len(); i++ {
			r = nd.And(r, c12Equal(a.Index(i), b.Index(i)))
		}
		return r
	case reflect.Struct:
		r := true
		for i := 0; i < a.NumField(); i++ {
			if a.Field(i).Type() == c12PosType {
				r = nd.And(r, (a.Field(i).Int() != 0) == (b.Field(i).Int() != 0))
				continue
			}
			r = nd.And(r, c12Equal(a.Field(i), b.Field(i)))
		}
		return r
	case reflect.String:
		return nd.StrEq(a.String(), b.String())
	case reflect.Int:
		return a.Int() == b.Int()
	case reflect.Bool:
		return a.Bool() == b.Bool()
	}
	return true
}

func c12Comments(f *ast.File) []string {
	var out []string
	for _, cg := range f.Comments {
		for _, c := range cg.List {
			out = append(out, c.Text)
		}
	}
	return out
}

// VerifC12APIvsCLI is the entry point.
func VerifC12APIvsCLI() {
	cs := c17Cases[nd.Choose("case", len(c17Cases))]
	c12 = &c12State{cs: cs, active: true}
	st := c12

	// library API
	pf, err := gopatch.Parse("p.patch", []byte(cs.patch))
	if err != nil {
		panic("harness: catalogue patch is rejected: " + err.Error())
	}
	_, apiErr := pf.Apply("a.go", []byte(cs.src))

	// command line pipeline on the same (symbolised) source
	fset := token.NewFileSet()
	pp, err := parse.Parse(fset, "p.patch", []byte(cs.patch))
	if err != nil {
		panic(err)
	}
	prog, err := engine.Compile(fset, pp)
	if err != nil {
		panic(err)
	}
	f, err := StubC12ParseFile(fset, "a.go", []byte(cs.src), parser.AllErrors|parser.ParseComments)
	if err != nil {
		panic(err)
	}
	r := newPatchRunner(fset, []*engine.Program{prog})
	cliTree, _, matched := r.Apply("a.go", f)
	st.active = false

	nd.Assert((apiErr != nil) == (len(r.errors) > 0), cs.name+": the library API and the command line disagree on whether the rewrite fails")
	if apiErr != nil || len(r.errors) > 0 {
		nd.Reach("failed")
		return
	}
	nd.Assert(matched == (st.apiTree != nil), cs.name+": the library API and the command line disagree on whether the file is rewritten")
	if !matched || st.apiTree == nil {
		nd.Reach("nomatch")
		return
	}
	nd.Assert(c12Equal(reflect.ValueOf(cliTree.Decls), reflect.ValueOf(st.apiTree.Decls)), cs.name+": the library API and the command line produce different code")
	ca, cb := c12Comments(cliTree), c12Comments(st.apiTree)
	same := len(ca) == len(cb)
	if same {
		for i := range ca {
			same = nd.And(same, nd.StrEq(ca[i], cb[i]))
		}
	}
	nd.Assert(same, fmt.Sprintf("%s: the library API and the command line keep different comments (%d vs %d)", cs.name, len(ca), len(cb)))
	nd.Reach("compared")
}

// ReplayC12APIvsCLI: the model's names are written into the text; the real
// Run (--print-only) and the real Apply must print the same bytes.
func ReplayC12APIvsCLI() {
	cs := c17Cases[nd.Choose("case", len(c17Cases))]
	fset := token.NewFileSet()
	f, err := parser.ParseFile(fset, "a.go", cs.src, parser.ParseComments)
	if err != nil {
		panic(err)
	}
	tf := fset.File(f.Pos())
	src := []byte(cs.src)
	k := 0
	for _, d := range f.Decls {
		ast.Inspect(d, func(n ast.Node) bool {
			if id, ok := n.(*ast.Ident); ok && id.Name == cs.marker {
				s := nd.Str(fmt.Sprintf("site%d", k), len(id.Name))
				k++
				copy(src[tf.Offset(id.Pos()):], s)
			}
			return true
		})
	}
	pf, err := gopatch.Parse("p.patch", []byte(cs.patch))
	if err != nil {
		panic(err)
	}
	api, apiErr := pf.Apply("a.go", src)
	cli, cliErr := c12RunCLI(cs.patch, src)
	if (apiErr != nil) != (cliErr != nil) {
		nd.Fail(cs.name + ": the library API and the command line disagree on whether the rewrite fails")
		return
	}
	if apiErr == nil && string(api) != string(cli) {
		nd.Fail(cs.name + ": the library API and --print-only produce different text")
	}
}
