package interp

// Control flow of the symbolic executor that is not part of the target
// program's semantics: engine-level panics, panic classification, sessions.

import (
	"fmt"
	"go/token"
	"go/types"
	"os"
	"runtime"
	"runtime/debug"
	"sort"
	"strings"

	"golang.org/x/tools/go/ssa"
)

func mustDeref(t types.Type) types.Type {
	if p, ok := t.Underlying().(*types.Pointer); ok {
		return p.Elem()
	}
	panic(unsupported(fmt.Sprintf("not a pointer: %v", t)))
}

// Engine-level (control) panics. They are never visible to the target
// program's defer/recover.
type (
	// abortPath ends the current path without a verdict (assume failed,
	// concretisation exhausted, infeasible).
	abortPath struct{ why string }
	// unsupported marks the path inconclusive: the engine cannot model
	// something the path needs.
	unsupported string
	// stepBudget is the unwinding-assertion failure: the per-path step
	// budget or call depth was exceeded.
	stepBudget struct{ where string }
	// frozenWrite is a store into an object marked read-only by nd.Freeze.
	frozenWrite struct{ what string }
)

func isControl(p any) bool {
	switch p.(type) {
	case abortPath, unsupported, stepBudget, frozenWrite:
		return true
	}
	return false
}

// targetStrings are interpreter-raised string panics that correspond to Go
// run-time panics of the target program.
var targetStrings = []string{
	"method invoked on nil interface",
	"call of nil function",
	"interface conversion:",
	"negative shift amount",
	"array length is greater than slice length",
	"value method ",
	"runtime error:",
}

// classifyPanic decides whether a recovered host panic is a panic of the
// target program (returned, to be handled by the target's defer/recover) or
// an engine condition (re-panicked as a control panic).
func classifyPanic(p any) any {
	switch p := p.(type) {
	case nil:
		return nil
	case abortPath, unsupported, stepBudget, frozenWrite:
		panic(p)
	case targetPanic:
		return p
	case exitPanic:
		panic(unsupported("os.Exit called"))
	case runtime.Error:
		msg := p.Error()
		if strings.Contains(msg, "interp.") || strings.Contains(msg, "interface conversion") {
			// a failed type assertion inside the engine itself: a value
			// shape the engine does not model on this path.
			if os.Getenv("SYMGO_DEBUG") != "" {
				fmt.Fprintf(os.Stderr, "ENGINE-ERROR %s\n%s\n", msg, debug.Stack())
			}
			panic(unsupported("engine: " + msg))
		}
		return p
	case string:
		for _, t := range targetStrings {
			if strings.HasPrefix(p, t) {
				return p
			}
		}
		panic(unsupported("engine: " + p))
	case error:
		panic(unsupported("engine: " + p.Error()))
	default:
		panic(unsupported(fmt.Sprintf("engine: panic %T %v", p, p)))
	}
}

func panicMessage(p any) string {
	switch p := p.(type) {
	case targetPanic:
		if it, ok := p.v.(iface); ok {
			switch v := it.v.(type) {
			case string:
				return v
			}
			if it.t != nil {
				return fmt.Sprintf("(%s) %s", it.t, toString(it.v))
			}
		}
		return toString(p.v)
	case runtime.Error:
		return p.Error()
	case string:
		return p
	}
	return fmt.Sprint(p)
}

// ---------------------------------------------------------------------------

// Session is a loaded program plus interpreter state, able to run entry
// functions path by path.
type Session struct {
	i       *interpreter
	prog    *ssa.Program
	roots   []*ssa.Package
	perPath []*ssa.Package // packages whose globals are re-initialised per path
	cov     map[string]int // function name -> calls (accumulated)
	instrs  map[string]int
	entry   *ssa.Function
	Params  map[string]int64
}

// HardSkipInit lists packages whose package initialiser is never run: they
// bind to the OS or the runtime. All other initialisers are attempted; one
// that needs something the engine cannot model poisons its package. Loads
// of globals of skipped or poisoned packages make a path inconclusive.
var HardSkipInit = []string{
	"runtime", "os", "syscall", "time", "internal/poll", "internal/godebug", "internal/cpu",
	"sync", "internal/reflectlite", "reflect", "internal/abi", "internal/bisect", "internal/testlog",
	"internal/syscall/unix", "unique", "internal/weak", "math/rand", "math/rand/v2", "internal/race",
	"internal/chacha8rand", "log", "os/exec", "os/signal", "os/user", "net", "testing", "internal/sysinfo",
	"internal/syscall/execenv", "internal/runtime", "runtime/debug", "runtime/internal", "internal/bytealg",
	"golang.org/x/sys", "golang.org/x/tools/internal/gocommand", "golang.org/x/tools/internal/gopathwalk",
	"golang.org/x/tools/internal/imports", "golang.org/x/tools/imports", "golang.org/x/tools/internal/event",
	"golang.org/x/tools/internal/stdlib", "github.com/jessevdk/go-flags", "go/build", "go/types", "go/doc",
	"text/template", "html/template", "net/http", "crypto", "encoding/json", "encoding/xml",
	"math/big", "compress", "archive",
}

func skipInitFor(path string, skip []string) bool {
	for _, p := range skip {
		if path == p || strings.HasPrefix(path, p+"/") {
			return true
		}
	}
	return false
}

func isStdlib(path string) bool {
	first := path
	if k := strings.Index(path, "/"); k >= 0 {
		first = path[:k]
	}
	return !strings.Contains(first, ".")
}

// NewSession prepares an interpreter over prog. roots are the packages
// holding harness entries.
func NewSession(prog *ssa.Program, roots []*ssa.Package, sizes types.Sizes) *Session {
	i := &interpreter{
		prog:       prog,
		globals:    make(map[*ssa.Global]*value),
		sizes:      sizes,
		fninfo:     map[*ssa.Function]*fnInfo{},
		skipInit:   map[string]bool{},
		stubs:      map[string]externalFn{},
		poisoned:   map[string]string{},
		badGlobals: map[*ssa.Global]string{},
	}
	runtimePkg := prog.ImportedPackage("runtime")
	if runtimePkg == nil {
		panic("ssa.Program doesn't include runtime package")
	}
	i.runtimeErrorString = runtimePkg.Type("errorString").Object().Type()
	initReflect(i)
	s := &Session{i: i, prog: prog, roots: roots, cov: map[string]int{}, instrs: map[string]int{}, Params: map[string]int64{}}
	for _, pkg := range prog.AllPackages() {
		path := pkg.Pkg.Path()
		if skipInitFor(path, HardSkipInit) {
			i.skipInit[path] = true
			i.poison(pkg, "init skipped (OS/runtime-bound)")
		}
		for _, m := range pkg.Members {
			if v, ok := m.(*ssa.Global); ok {
				cell := zero(mustDeref(v.Type()))
				i.globals[v] = &cell
			}
		}
		if !isStdlib(path) && !i.skipInit[path] {
			s.perPath = append(s.perPath, pkg)
		}
	}
	sort.Slice(s.perPath, func(a, b int) bool { return s.perPath[a].Pkg.Path() < s.perPath[b].Pkg.Path() })
	return s
}

// InitOnce runs the initialisers of all root packages (transitively) once.
func (s *Session) InitOnce() (err error) {
	X = newExplorer(nil)
	X.MaxSteps = 2_000_000_000
	defer func() {
		if r := recover(); r != nil {
			err = fmt.Errorf("package init failed: %v", describePanic(r))
		}
	}()
	for _, r := range s.roots {
		call(s.i, nil, token.NoPos, r.Func("init"), nil)
	}
	if os.Getenv("SYMGO_DEBUG") != "" {
		for p, why := range s.i.poisoned {
			if !s.i.skipInit[p] {
				fmt.Fprintf(os.Stderr, "poisoned package %s: %s\n", p, why)
			}
		}
	}
	for _, r := range s.roots {
		if why, bad := s.i.poisoned[r.Pkg.Path()]; bad {
			return fmt.Errorf("root package %s: %s", r.Pkg.Path(), why)
		}
	}
	return nil
}

func describePanic(r any) string {
	switch r := r.(type) {
	case unsupported:
		return "unsupported: " + string(r)
	case abortPath:
		return "abort: " + r.why
	case stepBudget:
		return "step budget: " + r.where
	case frozenWrite:
		return "frozen write: " + r.what
	}
	return panicMessage(r)
}

// resetPerPath re-zeroes the globals of all non-stdlib packages and re-runs
// their initialisers, so every path starts from the same program state.
func (s *Session) resetPerPath() {
	for _, pkg := range s.perPath {
		for _, m := range pkg.Members {
			if v, ok := m.(*ssa.Global); ok {
				*s.i.globals[v] = zero(mustDeref(v.Type()))
			}
		}
	}
	for _, r := range s.roots {
		call(s.i, nil, token.NoPos, r.Func("init"), nil)
	}
}

// SetEntry selects the entry function and its stubs (SSA name -> "pkgpath.Func").
func (s *Session) SetEntry(pkgPath, fname string, stubs map[string]string) error {
	s.harvest()
	find := func(pkgPath, fname string) *ssa.Function {
		for _, p := range s.prog.AllPackages() {
			if p.Pkg.Path() == pkgPath {
				return p.Func(fname)
			}
		}
		return nil
	}
	fn := find(pkgPath, fname)
	if fn == nil {
		return fmt.Errorf("entry %s.%s not found", pkgPath, fname)
	}
	s.entry = fn
	s.i.stubs = map[string]externalFn{}
	s.i.stubFns = map[string]*ssa.Function{}
	for target, repl := range stubs {
		k := strings.LastIndex(repl, ".")
		f := find(repl[:k], repl[k+1:])
		if f == nil {
			return fmt.Errorf("stub %s not found", repl)
		}
		s.i.stubFns[target] = f
	}
	// verify that every stub target exists in the program, so that a
	// renamed function cannot silently disable a stub.
	names := map[string]bool{}
	for fn := range ssaAllFunctions(s.prog) {
		names[fn.String()] = true
	}
	// engine-wide models of dependency code that uses goroutines (written in
	// Go in package nd); applied whenever the target is part of the program.
	for target, repl := range defaultStubs {
		if _, own := stubs[target]; own || !names[target] {
			continue
		}
		k := strings.LastIndex(repl, ".")
		if f := find(repl[:k], repl[k+1:]); f != nil {
			s.i.stubFns[target] = f
		}
	}
	for target := range stubs {
		if !names[target] {
			return fmt.Errorf("stub target %s does not exist in the program", target)
		}
	}
	s.i.fninfo = map[*ssa.Function]*fnInfo{}
	return nil
}

// defaultStubs: go-intervals turns a callback enumeration into a pull iterator
// with a generator goroutine and two channels; the model runs the (side-effect
// free) enumeration eagerly and iterates over the collected values.
var defaultStubs = map[string]string{
	"github.com/google/go-intervals/intervalset.mapperToIterator": "github.com/uber-go/gopatch/internal/zzverif/nd.EagerIterator",
	"(*sync.Map).Load":          "github.com/uber-go/gopatch/internal/zzverif/nd.SyncMapLoad",
	"(*sync.Map).Store":         "github.com/uber-go/gopatch/internal/zzverif/nd.SyncMapStore",
	"(*sync.Map).LoadOrStore":   "github.com/uber-go/gopatch/internal/zzverif/nd.SyncMapLoadOrStore",
	"(*sync.Map).LoadAndDelete": "github.com/uber-go/gopatch/internal/zzverif/nd.SyncMapLoadAndDelete",
	"(*sync.Map).Delete":        "github.com/uber-go/gopatch/internal/zzverif/nd.SyncMapDelete",
	"(*sync.Map).Range":         "github.com/uber-go/gopatch/internal/zzverif/nd.SyncMapRange",
}

var allFuncsCache map[*ssa.Function]bool

func ssaAllFunctions(prog *ssa.Program) map[*ssa.Function]bool {
	if allFuncsCache != nil {
		return allFuncsCache
	}
	seen := map[*ssa.Function]bool{}
	var visit func(fn *ssa.Function)
	visit = func(fn *ssa.Function) {
		if fn == nil || seen[fn] {
			return
		}
		seen[fn] = true
		for _, a := range fn.AnonFuncs {
			visit(a)
		}
	}
	for _, pkg := range prog.AllPackages() {
		for _, m := range pkg.Members {
			switch m := m.(type) {
			case *ssa.Function:
				visit(m)
			case *ssa.Type:
				for _, T := range []types.Type{m.Type(), types.NewPointer(m.Type())} {
					ms := prog.MethodSets.MethodSet(T)
					for k := 0; k < ms.Len(); k++ {
						visit(prog.MethodValue(ms.At(k)))
					}
				}
			}
		}
	}
	allFuncsCache = seen
	return seen
}

func (s *Session) harvest() {
	for fn, fi := range s.i.fninfo {
		if fi.calls > 0 && fi.ext == nil && fn.Blocks != nil {
			s.cov[fi.name] += fi.calls
			n := 0
			for _, b := range fn.Blocks {
				n += len(b.Instrs)
			}
			s.instrs[fi.name] = n
		}
		fi.calls = 0
	}
}

// Coverage returns function name -> [calls, instructions] for all SSA
// functions whose bodies were executed since the session started.
func (s *Session) Coverage() map[string][2]int {
	s.harvest()
	out := map[string][2]int{}
	for k, v := range s.cov {
		out[k] = [2]int{v, s.instrs[k]}
	}
	return out
}
