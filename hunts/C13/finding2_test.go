package main

// C13 finding 2 (package main, repository root).
//
// splitPatch strips the "-"/"+" prefix of changed lines but keeps the " "
// prefix of context lines in the generated Go text. Inside a multi-line raw
// string literal that space becomes part of the literal, so writing the
// unchanged continuation line of the literal once with a space prefix instead
// of as an identical -/+ pair changes what the patch matches.
import (
	"bytes"
	"fmt"
	"go/ast"
	"go/parser"
	"go/token"
	"os"
	"path/filepath"
	"reflect"
	"testing"
)

func c13h2Run(t *testing.T, patch, src string) (stdout, stderr string, err error) {
	t.Helper()
	dir := t.TempDir()
	file := filepath.Join(dir, "src.go")
	if werr := os.WriteFile(file, []byte(src), 0o644); werr != nil {
		t.Fatal(werr)
	}
	var out, errb bytes.Buffer
	cmd := mainCmd{
		Stdin:  bytes.NewReader([]byte(patch)),
		Stdout: &out,
		Stderr: &errb,
		Getwd:  func() (string, error) { return dir, nil },
	}
	func() {
		defer func() {
			if r := recover(); r != nil {
				err = fmt.Errorf("PANIC: %v", r)
			}
		}()
		err = cmd.Run([]string{"--print-only", file})
	}()
	return out.String(), errb.String(), err
}

// c13h2Syntax renders src as a position-free, comment-free syntax tree dump.
func c13h2Syntax(t *testing.T, src string) string {
	t.Helper()
	f, err := parser.ParseFile(token.NewFileSet(), "out.go", src, parser.SkipObjectResolution)
	if err != nil {
		return "UNPARSEABLE: " + err.Error() + "\n" + src
	}
	posT := reflect.TypeOf(token.NoPos)
	var buf bytes.Buffer
	_ = ast.Fprint(&buf, nil, f, func(name string, v reflect.Value) bool {
		return v.Type() != posT && name != "Obj" && name != "Scope" && name != "Unresolved"
	})
	return buf.String()
}

func TestC13H2_RawStringContinuationOnContextLine(t *testing.T) {
	const src = "package a\n\nfunc f() {\n\tfoo(`a\nb`)\n}\n"

	const pairLayout = "@@\n@@\n-foo(`a\n-b`)\n+bar(`a\n+b`)\n"
	const contextLayout = "@@\n@@\n-foo(`a\n+bar(`a\n b`)\n"

	out1, _, err1 := c13h2Run(t, pairLayout, src)
	out2, _, err2 := c13h2Run(t, contextLayout, src)
	if err1 != nil || err2 != nil {
		t.Fatalf("errors: pair layout: %v; context layout: %v", err1, err2)
	}
	if c13h2Syntax(t, out1) != c13h2Syntax(t, out2) {
		t.Errorf("results differ syntactically.\n--- pair layout:\n%s\n--- context-line layout:\n%s", out1, out2)
	}
}
