package patch_test

// Finding 3 (C17): goes in directory  patch/  (package patch_test).
// (uses docOf from finding2_test.go)
//
// The patch does not mention imports at all, but ImportsReplacer.Cleanup
// strips the parentheses of every single-spec import group of every patched
// file. The comment trailing the ")" of the (untouched) import declaration
// loses its line and is glued onto the doc comment of the next, untouched
// declaration.

import (
	"testing"

	"github.com/uber-go/gopatch/patch"
)

func TestFinding3_ImportGroupTrailingCommentMovesIntoNextDoc(t *testing.T) {
	const p = `@@
@@
-foo()
+bar()
`
	const src = `package a

import (
	"fmt"
) // trailing comment of the import declaration
// U0 doc
func U0() { fmt.Println() }

func T1() { foo() }
`
	f, err := patch.Parse("p.patch", []byte(p))
	if err != nil {
		t.Fatal(err)
	}
	out, err := f.Apply("a.go", []byte(src))
	if err != nil {
		t.Fatal(err)
	}
	if got, want := docOf(t, out, "U0"), "U0 doc\n"; got != want {
		t.Errorf("doc comment of untouched U0 = %q, want %q\n%s", got, want, out)
	}
}
