package main

// C05 finding 2: adding an import detaches the cgo preamble from `import "C"`.
// Goes in the repository root (package main).

import (
	"bytes"
	"go/ast"
	"go/parser"
	"go/token"
	"os"
	"path/filepath"
	"strings"
	"testing"
)

func TestFinding2_CgoPreambleDetachedByAddedImport(t *testing.T) {
	const patch = `@@
var x expression
@@
+import "example.com/log"

-foo(x)
+log.Print(x)
`
	const src = `package a

import "fmt"

// #include <math.h>
import "C"

import "os"

func f() { foo(C.sqrt(1)); fmt.Println(os.Args) }
`
	dir := t.TempDir()
	pp := filepath.Join(dir, "p.patch")
	gp := filepath.Join(dir, "a.go")
	if err := os.WriteFile(pp, []byte(patch), 0o644); err != nil {
		t.Fatal(err)
	}
	if err := os.WriteFile(gp, []byte(src), 0o644); err != nil {
		t.Fatal(err)
	}
	var stdout, stderr bytes.Buffer
	cmd := &mainCmd{Stdin: strings.NewReader(""), Stdout: &stdout, Stderr: &stderr, Getwd: os.Getwd}
	if err := cmd.Run([]string{"-p", pp, gp}); err != nil {
		t.Fatalf("gopatch failed: %v\n%s", err, stderr.String())
	}
	out, err := os.ReadFile(gp)
	if err != nil {
		t.Fatal(err)
	}

	f, err := parser.ParseFile(token.NewFileSet(), gp, out, parser.ParseComments)
	if err != nil {
		t.Fatalf("output does not parse: %v\n%s", err, out)
	}
	for _, d := range f.Decls {
		gd, ok := d.(*ast.GenDecl)
		if !ok || gd.Tok != token.IMPORT {
			continue
		}
		for _, s := range gd.Specs {
			if s.(*ast.ImportSpec).Path.Value != `"C"` {
				continue
			}
			// cgo reads the preamble from the doc comment of the
			// declaration that imports "C".
			if gd.Doc == nil || !strings.Contains(gd.Doc.Text(), "#include <math.h>") {
				t.Fatalf("cgo preamble is no longer attached to import \"C\":\n%s", out)
			}
			return
		}
	}
	t.Fatalf("import \"C\" not found in output:\n%s", out)
}
