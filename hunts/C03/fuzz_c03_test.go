package patch

import (
	"bytes"
	"fmt"
	"go/ast"
	"go/parser"
	"go/printer"
	"go/token"
	"math/rand"
	"os"
	"reflect"
	"strings"
	"testing"
)

// shape returns a canonical string of the AST ignoring positions, objects,
// comments and ParenExpr wrappers.
func shape(n any) string {
	var sb strings.Builder
	shapeV(&sb, reflect.ValueOf(n))
	return sb.String()
}

func shapeV(sb *strings.Builder, v reflect.Value) {
	if !v.IsValid() {
		sb.WriteString("nil")
		return
	}
	switch v.Kind() {
	case reflect.Interface, reflect.Ptr:
		if v.IsNil() {
			sb.WriteString("nil")
			return
		}
		if v.Kind() == reflect.Ptr {
			switch x := v.Interface().(type) {
			case *ast.ParenExpr:
				shapeV(sb, reflect.ValueOf(x.X))
				return
			case *ast.Object, *ast.CommentGroup, *ast.Scope:
				sb.WriteString("_")
				return
			}
		}
		shapeV(sb, v.Elem())
	case reflect.Struct:
		t := v.Type()
		sb.WriteString(t.Name())
		sb.WriteString("{")
		for i := 0; i < t.NumField(); i++ {
			if t.Field(i).Type == reflect.TypeOf(token.Pos(0)) {
				// keep validity for positions that affect syntax
				name := t.Field(i).Name
				if name == "Ellipsis" || name == "Lparen" && t.Name() == "GenDecl" || name == "Assign" {
					fmt.Fprintf(sb, "%s:%v,", name, v.Field(i).Interface().(token.Pos).IsValid())
				}
				continue
			}
			if t.Field(i).Name == "Obj" {
				continue
			}
			sb.WriteString(t.Field(i).Name)
			sb.WriteString(":")
			shapeV(sb, v.Field(i))
			sb.WriteString(",")
		}
		sb.WriteString("}")
	case reflect.Slice:
		sb.WriteString("[")
		for i := 0; i < v.Len(); i++ {
			shapeV(sb, v.Index(i))
			sb.WriteString(",")
		}
		sb.WriteString("]")
	default:
		fmt.Fprintf(sb, "%v", v.Interface())
	}
}

var atoms = []string{
	"a", "b.c", "1", `"s"`, "'c'", "1.5", "0x1F", "f()", "g(a, b)", "h(a...)", "a[i]", "a[1:2]", "a[:]",
	"a[1:2:3]", "a.(T)", "(a)", "-a", "!a", "^a", "*p", "&v", "<-ch", "a + b", "a * b", "a && b",
	"a || b", "a == b", "a << 2", "a &^ b", "a - b", "a / b", "a % b", "a | b", "a ^ b", "a < b",
	"func() {}", "func(x int) int { return x }", "T{}", "T{A: 1}", "pkg.T{A: 1, B: 2}",
	"[]int{1, 2}", `map[string]int{"a": 1}`, "&T{}", "[]T{{1}, {2}}", "struct{}{}", "[3]int{}",
	"[...]int{1}", "foo[int]", "foo[int, string](1)", "interface{}(nil)", "(*T)(nil)",
	`[]byte("x")`, "(<-chan int)(nil)", "(func(int) error)(nil)", "func() int { return 1 }()",
	"a.b.c.d()", "-1", "+1", "- -a", "&a[0]", "*a.b", "<-<-cc", "a+b*c", "(a+b)*c", "!(a && b)",
	"a.(*T).f", "new(T)", "make([]int, 3)", "len(a) + 1", "x.y[1].z", "func() { for i := range x { _ = i }; if a { return } }",
	"func(a, b int, c ...string) (int, error) { return 0, nil }", "`raw\nstr`", "1i", "a[b[c]]",
	"struct{ a int; b string }{1, \"x\"}", "[]interface{ M() }{nil}", "map[K][]V{}", "chan int(nil)",
	"[]chan<- int{}", "[]<-chan int{}", "a <- b == c", "^a &^ ^b", "a & ^b", "a - -b", "a + +b", "a < -b", "a / *p", "a & &v == nil",
}

var unops = []string{"-%s", "!%s", "^%s", "*%s", "&%s", "<-%s", "(%s)", "%s.f", "%s[0]", "%s()", "%s.(T)", "%s[1:]", "f(%s)", "[]T{%s}", "T{k: %s}"}
var binops = []string{"%s + %s", "%s * %s", "%s - %s", "%s && %s", "%s || %s", "%s == %s", "%s << %s", "%s &^ %s", "%s & %s", "%s / %s", "%s < %s", "%s[%s]", "%s(%s)", "f(%s, %s)", "%s.m(%s)", "T{%s, %s}", "map[K]V{%s: %s}", "%s[%s:]"}

func genExpr(r *rand.Rand, depth int, leaves []string) string {
	if depth == 0 || r.Intn(3) == 0 {
		return leaves[r.Intn(len(leaves))]
	}
	if r.Intn(2) == 0 {
		return fmt.Sprintf(unops[r.Intn(len(unops))], genExpr(r, depth-1, leaves))
	}
	return fmt.Sprintf(binops[r.Intn(len(binops))], genExpr(r, depth-1, leaves), genExpr(r, depth-1, leaves))
}

var contexts = []string{
	"if %s {\n}", "for %s {\n}", "switch %s {\n}", "if v := %s; v {\n}", "for i := %s; ; {\n}", "switch x := %s; x {\n}",
	"for range %s {\n}", "for k, v := range %s {\n}", "switch %s.(type) {\n}", "switch v := %s.(type) {\n}", "select {\ncase <-%s:\n}", "select {\ncase %s <- 1:\n}",
	"switch {\ncase %s:\n}", "switch x {\ncase 1, %s:\n}", "if a {\n} else if %s {\n}", "for ; %s; {\n}", "for ; ; %s {\n}", "var v T = %s", "var v = %s", "const c = %s",
	"L: %s", "%s++", "%s += 1", "%s = 1", "%s, a = 1, 2", "a := %s", "var v [%s]int", "type X [%s]int", "_ = func() T { return %s }", "_ = a[%s]",
	"_ = %s", "return %s", "g(%s)", "%s.m()", "_ = -%s", "_ = a * %s", "_ = %s * a", "_ = *%s", "_ = %s.f", "_ = %s[0]",
	"%s(1)", "_ = &%s", "_ = <-%s", "_ = %s.(T)", "_ = !%s", "_ = []int{%s}", "_ = T{k: %s}", "_ = x[%s:]", "_ = a - %s", "_ = a &^ %s",
	"%s <- 1", "c <- %s", "_, _ = 1, %s", "defer f(%s)", "go f(%s)", "_ = a && %s", "_ = a == %s", "_ = a / %s", "_ = a & %s", "_ = a < %s",
}

func parseExprOK(s string) (ast.Expr, bool) {
	e, err := parser.ParseExpr(s)
	return e, err == nil
}

// substitute metavars in template AST.
func subst(e ast.Expr, b map[string]ast.Expr) ast.Expr {
	v := reflect.ValueOf(&e).Elem()
	substV(v, b)
	return e
}

func substV(v reflect.Value, b map[string]ast.Expr) {
	switch v.Kind() {
	case reflect.Interface:
		if v.IsNil() {
			return
		}
		if id, ok := v.Interface().(*ast.Ident); ok {
			if r, ok := b[id.Name]; ok {
				if v.Type() == reflect.TypeOf((*ast.Expr)(nil)).Elem() {
					v.Set(reflect.ValueOf(r))
				}
				return
			}
		}
		substV(v.Elem(), b)
	case reflect.Ptr:
		if v.IsNil() {
			return
		}
		if _, ok := v.Interface().(*ast.Object); ok {
			return
		}
		substV(v.Elem(), b)
	case reflect.Struct:
		for i := 0; i < v.NumField(); i++ {
			if v.Field(i).CanSet() {
				substV(v.Field(i), b)
			}
		}
	case reflect.Slice:
		for i := 0; i < v.Len(); i++ {
			substV(v.Index(i), b)
		}
	}
}

func TestFuzzC03(t *testing.T) {
	seed := int64(1)
	if s := os.Getenv("C03_SEED"); s != "" {
		fmt.Sscan(s, &seed)
	}
	iters := 300
	if s := os.Getenv("C03_ITERS"); s != "" {
		fmt.Sscan(s, &iters)
	}
	r := rand.New(rand.NewSource(seed))
	if os.Getenv("C03_NOCOMP") != "" {
		filter := func(in []string) (out []string) {
			for _, a := range in {
				if strings.Contains(a, "{") && !strings.HasPrefix(a, "func") {
					continue
				}
				out = append(out, a)
			}
			return out
		}
		atoms = filter(atoms)
		unops = filter(unops)
		binops = filter(binops)
	}
	metas := []string{"mx", "my", "mz"}
	fails := map[string]int{}
	for it := 0; it < iters; it++ {
		var tmpl string
		for {
			tmpl = genExpr(r, 2, metas)
			if _, ok := parseExprOK(tmpl); ok {
				break
			}
		}
		patchSrc := "@@\nvar mx, my, mz expression\n@@\n-site(mx, my, mz)\n+" + tmpl + "\n"
		pf, err := Parse("p.patch", []byte(patchSrc))
		if err != nil {
			fails["patch parse: "+firstLine(err.Error())]++
			continue
		}

		nsites := 1 + r.Intn(4)
		var src bytes.Buffer
		src.WriteString("package p\n\n")
		type site struct {
			ctx  string
			b    [3]string
			want string
		}
		var sites []site
		for s := 0; s < nsites; s++ {
			var st site
			for {
				for k := 0; k < 3; k++ {
					st.b[k] = genExpr(r, 1, atoms)
				}
				st.ctx = contexts[r.Intn(len(contexts))]
				ok := true
				bind := map[string]ast.Expr{}
				for k := 0; k < 3; k++ {
					e, good := parseExprOK(st.b[k])
					if !good {
						ok = false
						break
					}
					bind[metas[k]] = e
				}
				if !ok {
					continue
				}
				te, _ := parseExprOK(tmpl)
				st.want = shape(subst(te, bind))
				break
			}
			sites = append(sites, st)
			fmt.Fprintf(&src, "func f%d() {\n\t%s\n}\n\n", s, fmt.Sprintf(st.ctx, fmt.Sprintf("site(%s, %s, %s)", st.b[0], st.b[1], st.b[2])))
		}
		if _, err := parser.ParseFile(token.NewFileSet(), "a.go", src.Bytes(), 0); err != nil {
			continue // context made it invalid
		}

		out, err := func() (out []byte, err error) {
			defer func() {
				if p := recover(); p != nil {
					err = fmt.Errorf("PANIC: %v", p)
				}
			}()
			return pf.Apply("a.go", src.Bytes())
		}()
		if err != nil {
			em := firstLine(err.Error())
			if i := strings.Index(em, "a.go:"); i >= 0 {
				em = em[i:]
				if j := strings.Index(em, " "); j >= 0 {
					em = em[j:]
				}
			}
			key := "apply error: " + em
			if fails[key] == 0 {
				t.Logf("APPLY ERROR\npatch:\n%s\nsrc:\n%s\nerr: %v", patchSrc, src.String(), err)
			}
			fails[key]++
			continue
		}
		of, err := parser.ParseFile(token.NewFileSet(), "a.go", out, 0)
		if err != nil {
			t.Logf("OUTPUT UNPARSEABLE\npatch:\n%s\nsrc:\n%s\nout:\n%s\nerr: %v", patchSrc, src.String(), out, err)
			fails["unparseable output"]++
			continue
		}
		// For each site, build expected function by parsing the context with a placeholder and substituting.
		for s, st := range sites {
			ctxSrc := fmt.Sprintf("package p\nfunc f%d() {\n\t%s\n}\n", s, fmt.Sprintf(st.ctx, "PLACEHOLDER"))
			cf, err := parser.ParseFile(token.NewFileSet(), "c.go", []byte(ctxSrc), 0)
			if err != nil {
				t.Fatal(err)
			}
			te, _ := parseExprOK(tmpl)
			bind := map[string]ast.Expr{}
			for k := 0; k < 3; k++ {
				e, _ := parseExprOK(st.b[k])
				bind[metas[k]] = e
			}
			inst := subst(te, bind)
			var wantFn ast.Decl = cf.Decls[0]
			substV(reflect.ValueOf(&wantFn).Elem(), map[string]ast.Expr{"PLACEHOLDER": inst})
			want := shape(wantFn)
			got := shape(of.Decls[s])
			if want != got {
				// Was the site left unchanged?
				orig, _ := parser.ParseFile(token.NewFileSet(), "a.go", src.Bytes(), 0)
				kind := "MISMATCH"
				if shape(orig.Decls[s]) == got {
					kind = "UNCHANGED"
				}
				key := kind + " tmpl=" + tmpl
				if fails[key] == 0 {
					var fb bytes.Buffer
					printer.Fprint(&fb, token.NewFileSet(), of.Decls[s])
					t.Logf("REC %s ||| %s ||| %s ||| %q ||| %s", kind, tmpl, st.ctx, st.b, strings.Join(strings.Fields(fb.String()), " "))
				}
				fails[key]++
			}
		}
	}
	for k, v := range fails {
		t.Logf("FAILCLASS %d x %s", v, k)
	}
}

func firstLine(s string) string {
	if i := strings.IndexByte(s, '\n'); i >= 0 {
		s = s[:i]
	}
	if len(s) > 100 {
		s = s[:100]
	}
	return s
}
