package engine

import (
	"fmt"
	"go/ast"
	"go/parser"
	"go/token"
	"strings"

	"github.com/uber-go/gopatch/internal/parse"
	"github.com/uber-go/gopatch/internal/zzverif/nd"
)

// Patch-side import forms.
const (
	c10Absent = iota
	c10Unnamed
	c10Named   // literal name "nm"
	c10Metavar // name is the identifier metavariable "mv"
	c10Dot
	c10Blank
	c10NamedBase // literal name equal to the last element of the path ("b" for "a/b")
)

func c10PatchImport(form int, path string) string {
	switch form {
	case c10Unnamed:
		return fmt.Sprintf(" import %q\n", path)
	case c10Named:
		return fmt.Sprintf(" import nm %q\n", path)
	case c10Metavar:
		return fmt.Sprintf(" import mv %q\n", path)
	case c10Dot:
		return fmt.Sprintf(" import . %q\n", path)
	case c10Blank:
		return fmt.Sprintf(" import _ %q\n", path)
	case c10NamedBase:
		return fmt.Sprintf(" import %s %q\n", path[strings.LastIndex(path, "/")+1:], path)
	}
	return ""
}

// VerifC10Guards: a change applies to a file iff the file is of the package
// the change names (if any) and imports every path the change lists in the
// stated form, and the code pattern occurs in it (the callee's name is symbolic).
func VerifC10Guards() {
	withPkg := nd.Choose("patchpkg", 2) == 1
	form1 := nd.Choose("form1", 7)
	form2 := c10Absent
	if nd.Param("TWO", 0) == 1 {
		form2 = nd.Choose("form2", 3) // absent | unnamed | metavar-named second import
		if form2 == 2 {
			form2 = c10Named
		}
	}
	patch := "@@\nvar mv identifier\n@@\n"
	if withPkg {
		patch += " package pkg\n"
	}
	patch += c10PatchImport(form1, "a/b") + c10PatchImport(form2, "c/d")
	// the '+' side is an expression, or a statement (the '-' expression is then coerced to a statement list)
	if nd.Choose("plusform", 2) == 0 {
		patch += "\n-foo()\n+bar()\n"
	} else {
		patch += "\n-foo()\n+if ok {\n+\tbar()\n+}\n"
	}
	fset := token.NewFileSet()
	pp, err := parse.Parse(fset, "p.patch", []byte(patch))
	if err != nil {
		panic("harness: " + err.Error() + "\n" + patch)
	}
	prog, err := Compile(fset, pp)
	if err != nil {
		panic("harness: " + err.Error())
	}

	// the file: package name and import names symbolic
	pkgLen := []int{3, 8}[nd.Choose("pkglen", 2)] // "pkg" / "pkg_test"
	fileHas1 := nd.Choose("file1", 8)             // absent | unnamed | named (2 symbolic bytes) | named "mv" | dot | blank | unnamed AND named | named AND unnamed (the path imported twice)
	fileHas2 := nd.Choose("file2", 3)             // absent | unnamed | named (2 symbolic bytes)
	grouped := nd.Choose("grouped", 2) == 1
	raw := nd.Choose("rawstring", 2) == 1 // the file spells its import paths as raw strings
	spec := func(form int, path string) string {
		q := fmt.Sprintf("%q", path)
		if raw {
			q = "`" + path + "`"
		}
		switch form {
		case 1:
			return q
		case 2:
			return "zz " + q
		case 3:
			return "mv " + q
		case 4:
			return ". " + q
		case 5:
			return "_ " + q
		}
		return ""
	}
	src := "package " + "pkg_test"[:pkgLen] + "\n\n"
	s1, s2 := spec(fileHas1, "a/b"), spec(fileHas2, "c/d")
	s1b := "" // second spec of the first path
	switch fileHas1 {
	case 6:
		s1, s1b = spec(1, "a/b"), spec(2, "a/b")
	case 7:
		s1, s1b = spec(2, "a/b"), spec(1, "a/b")
	}
	switch {
	case grouped && (s1 != "" || s2 != ""):
		src += "import (\n\t\"fmt\"\n"
		if s1 != "" {
			src += "\t" + s1 + "\n"
		}
		if s1b != "" {
			src += "\t" + s1b + "\n"
		}
		if s2 != "" {
			src += "\t" + s2 + "\n"
		}
		src += ")\n"
	default:
		src += "import \"fmt\"\n"
		if s1 != "" {
			src += "import " + s1 + "\n"
		}
		if s1b != "" {
			src += "import " + s1b + "\n"
		}
		if s2 != "" {
			src += "import " + s2 + "\n"
		}
	}
	src += "\nfunc f() {\n\tfoo()\n}\n"
	file, err := parser.ParseFile(fset, "a.go", src, parser.ParseComments)
	if err != nil {
		panic("harness: " + err.Error() + "\n" + src)
	}
	pn := nd.Str("pkgname", pkgLen)
	for i := 0; i < len(pn); i++ {
		nd.Assume(nd.Or(nd.And(pn[i] >= 'a', pn[i] <= 'z'), pn[i] == '_'))
	}
	file.Name.Name = pn
	var name1, name2 *ast.Ident
	var names1 []*ast.Ident // one entry per spec importing the first path, in file order (nil = unnamed)
	for _, is := range file.Imports {
		switch is.Path.Value {
		case `"a/b"`, "`a/b`":
			name1 = is.Name
			names1 = append(names1, is.Name)
		case `"c/d"`, "`c/d`":
			name2 = is.Name
		}
	}
	symName := func(id *ast.Ident, tag string) {
		if id == nil || id.Name != "zz" {
			return
		}
		s := nd.Str(tag, 2)
		nd.Assume(nd.And(s[0] >= 'a', s[0] <= 'z'))
		nd.Assume(nd.And(s[1] >= 'a', s[1] <= 'z'))
		id.Name = s
	}
	for _, id := range names1 {
		symName(id, "name1")
	}
	symName(name2, "name2")

	// the code the pattern looks for: its name is symbolic, so the file may not contain an instance at all
	occurs := true
	ast.Inspect(file, func(n ast.Node) bool {
		if c, ok := n.(*ast.CallExpr); ok {
			if id, ok := c.Fun.(*ast.Ident); ok && id.Name == "foo" {
				s := nd.Str("callee", 3)
				for i := 0; i < len(s); i++ {
					nd.Assume(nd.And(s[i] >= 'a', s[i] <= 'z'))
				}
				id.Name = s
				occurs = nd.StrEq(s, "foo")
			}
		}
		return true
	})

	_, got := prog.Changes[0].Match(file)

	// the property's table
	formOK := func(pform int, present bool, id *ast.Ident) bool {
		switch pform {
		case c10Absent:
			return true
		case c10Unnamed:
			return present && id == nil
		case c10Named:
			if !present || id == nil {
				return false
			}
			return nd.StrEq(id.Name, "nm")
		case c10Metavar:
			return present // any name or none
		case c10Dot:
			if !present || id == nil {
				return false
			}
			return nd.StrEq(id.Name, ".")
		case c10Blank:
			if !present || id == nil {
				return false
			}
			return nd.StrEq(id.Name, "_")
		case c10NamedBase: // a literal name matches that name only, never an unnamed import
			if !present || id == nil {
				return false
			}
			return nd.StrEq(id.Name, "b")
		}
		return false
	}
	ok1 := formOK(form1, fileHas1 != 0, name1)
	if len(names1) > 1 {
		// the path is imported twice: the guard holds if either spec has the stated form
		ok1 = false
		for _, id := range names1 {
			ok1 = nd.Or(ok1, formOK(form1, true, id))
		}
	}
	want := nd.And(ok1, formOK(form2, fileHas2 != 0, name2))
	if withPkg {
		want = nd.And(want, nd.StrEq(pn, "pkg"))
	}
	want = nd.And(want, occurs) // guards never make a file match in which the pattern does not occur (C06)
	nd.Assert(nd.Iff(got, want), fmt.Sprintf("guards: patch(pkg=%v, imports=%d/%d) file(imports=%d/%d, grouped=%v): the change applies iff package and every listed import match in the stated form", withPkg, form1, form2, fileHas1, fileHas2, grouped))
	nd.Reach("done")
}
