package main

import (
	"bytes"
	"os"
	"path/filepath"
)

// c12RunCLI runs the real command line entry point with --print-only on a temporary copy of src.
func c12RunCLI(patchText string, src []byte) ([]byte, error) {
	dir, err := os.MkdirTemp("", "verifc12-")
	if err != nil {
		panic(err)
	}
	defer os.RemoveAll(dir)
	pfile := filepath.Join(dir, "p.patch")
	gofile := filepath.Join(dir, "a.go")
	os.WriteFile(pfile, []byte(patchText), 0o644)
	os.WriteFile(gofile, src, 0o644)
	var stdout, stderr bytes.Buffer
	cmd := mainCmd{Stdin: bytes.NewReader(nil), Stdout: &stdout, Stderr: &stderr, Getwd: func() (string, error) { return dir, nil }}
	err = cmd.Run([]string{"-p", pfile, "--print-only", gofile})
	return stdout.Bytes(), err
}
