package main

import (
	"github.com/uber-go/gopatch/internal/zzverif/nd"
)

// VerifC06NoMatch: a file to which no change applies causes no effect at all
// (no write, no diff, no description), --print-only echoes exactly its
// original bytes, and the run succeeds.
func VerifC06NoMatch() {
	nfiles := nd.Param("FILES", 2)
	shape := nd.Choose("patchshape", 2) // one patch with two changes | two patches with one change
	nch := []int{2}
	if shape == 1 {
		nch = []int{1, 1}
	}
	frAllow.generated = true
	frEnv = frNewEnv(nfiles, nch)
	frEnv.opts = frSymOpts()
	cmd := frCmd()
	err := cmd.Run(nil)
	e := frEnv
	allQuiet := true
	for i := 0; i < nfiles; i++ {
		noMatch := nd.Not(e.anyMatch(i))
		skipped := nd.And(e.opts.SkipGenerated, nd.And(e.generated[i].set, e.generated[i].val))
		nd.Assert(nd.Implies(noMatch, len(e.effectsFor(i, "write", "fsmut", "diff", "stderr", "format", "process")) == 0),
			"a file in which nothing matched was written, diffed, described or re-printed")
		outs := e.effectsFor(i, "stdout")
		echo := nd.And(e.opts.Print, nd.Not(skipped))
		nd.Assert(nd.Implies(nd.And(noMatch, nd.Not(echo)), len(outs) == 0), "output for an unmatched file outside --print-only")
		ok := len(outs) == 1
		if ok {
			ok = frBytesEq(outs[0].data, e.content[i])
		}
		nd.Assert(nd.Implies(nd.And(noMatch, echo), ok), "--print-only does not echo the original bytes of an unmatched file exactly once")
		allQuiet = nd.And(allQuiet, noMatch)
	}
	nd.Assert(nd.Implies(allQuiet, err == nil), "run fails although nothing matched anywhere")
	nd.Reach("done")
}

// ReplayC06NoMatch realises the model as real files and runs the real binary entry point.
func ReplayC06NoMatch() {
	nfiles := nd.Param("FILES", 2)
	nch := []int{2}
	if v, _ := nd.Lookup("patchshape"); v == 1 {
		nch = []int{1, 1}
	}
	s := frScenarioFromModel(nfiles, nch)
	s.frCheckNative(s.runNative())
}
