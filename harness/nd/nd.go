// Package nd is the harness vocabulary of the symgo symbolic executor.
//
// Under symgo every function here is intercepted (by SSA name) and returns
// symbolic values / talks to the solver. Compiled natively, the same
// functions read a replay vector (the solver's model), so a harness runs as
// an ordinary Go function against the real build.
package nd

import (
	"encoding/json"
	"fmt"
	"os"
	"runtime/debug"
	"strings"
	"sync"
)

type symVar struct {
	Name  string `json:"name"`
	Width int    `json:"width"`
	Value uint64 `json:"value"`
}

type replayCase struct {
	Func  string   `json:"func"`
	Model []symVar `json:"model"`
}

var (
	vector     []symVar
	cursor     int
	violations []string
	replayErr  string
)

type assumeFailed struct{}

func next(name string, width int) uint64 {
	if cursor >= len(vector) {
		// Inputs the solver's path never created (the native run took a
		// longer path): default to zero, flagged.
		replayErr = fmt.Sprintf("replay vector exhausted at %s", name)
		panic(assumeFailed{})
	}
	v := vector[cursor]
	if v.Name != name {
		replayErr = fmt.Sprintf("replay vector mismatch: want %s, have %s", name, v.Name)
		panic(assumeFailed{})
	}
	cursor++
	return v.Value
}

// Lookup returns the model value of the first input called name (native
// replay only): scenario realisers read the model by name.
func Lookup(name string) (uint64, bool) {
	for _, v := range vector {
		if v.Name == name {
			return v.Value, true
		}
	}
	return 0, false
}

// Fail records a violation found by a native scenario realiser.
func Fail(msg string) { violations = append(violations, "assert: "+msg) }

// Symbolic reports whether the harness runs under the symbolic executor.
func Symbolic() bool { return false }

// Fresh inputs.
func Byte(name string) byte     { return byte(next(name, 8)) }
func Int(name string) int       { return int(int64(next(name, 64))) }
func Int32(name string) int32   { return int32(uint32(next(name, 32))) }
func Uint32(name string) uint32 { return uint32(next(name, 32)) }
func Bool(name string) bool     { return next(name, 1) != 0 }

func Bytes(name string, n int) []byte {
	out := make([]byte, n)
	for i := range out {
		out[i] = Byte(name)
	}
	return out
}

func Str(name string, n int) string { return string(Bytes(name, n)) }

// Choose returns a value in [0,n); the executor forks over all of them.
func Choose(name string, n int) int {
	if n <= 0 {
		panic(assumeFailed{})
	}
	return Int(name)
}

// Concrete forces x to a concrete value (forking over all feasible ones).
func Concrete(x int) int { return x }

// Param returns a task parameter (bound), or def when unset.
func Param(name string, def int) int {
	if v := os.Getenv("VERIF_PARAM_" + name); v != "" {
		var n int
		fmt.Sscan(v, &n)
		return n
	}
	return def
}

// Assume restricts the inputs considered; place it before the code it constrains.
func Assume(b bool) {
	if !b {
		panic(assumeFailed{})
	}
}

// Assert states the property.
func Assert(b bool, msg string) {
	if !b {
		violations = append(violations, "assert: "+msg)
	}
}

// Reach marks a reachability witness.
func Reach(tag string) {}

// Note records a free-form remark in the path result.
func Note(s string) {}

// Non-forking boolean connectives for oracles.
func And(a, b bool) bool     { return a && b }
func Or(a, b bool) bool      { return a || b }
func Not(a bool) bool        { return !a }
func Implies(a, b bool) bool { return !a || b }
func Iff(a, b bool) bool     { return a == b }
func Ite(c bool, a, b int) int {
	if c {
		return a
	}
	return b
}
func StrEq(a, b string) bool { return a == b }

// IsSym reports whether x holds a symbolic scalar (always false natively).
func IsSym(x any) bool { return false }

// Freeze marks everything reachable from x read-only (engine only).
func Freeze(x any) {}

// FreezeExcept is Freeze that does not descend into the objects listed in except.
func FreezeExcept(x any, except ...any) {}
func Thaw()                             {}

// EagerIterator is the engine's model of go-intervals' mapperToIterator (a
// generator goroutine feeding a channel): the enumeration is run to completion
// and an iterator over the collected values is returned; cancel is a no-op.
// Equivalent for the side-effect-free enumerations it is used with
// (Set.IntervalsBetween). Never called natively.
func EagerIterator(m func(func(interface{}) bool)) (func() (interface{}, bool), func()) {
	var vals []interface{}
	m(func(obj interface{}) bool {
		vals = append(vals, obj)
		return true
	})
	i := 0
	return func() (interface{}, bool) {
			if i >= len(vals) {
				return nil, false
			}
			v := vals[i]
			i++
			return v, true
		}, func() {
		}
}

// Single-threaded model of sync.Map (the engine does not run sync's
// initialiser): an insertion-ordered association list per map. Never called
// natively.
type syncMapModel struct {
	keys, vals []any
}

var syncMaps map[*sync.Map]*syncMapModel

func syncMapOf(m *sync.Map) *syncMapModel {
	if syncMaps == nil {
		syncMaps = map[*sync.Map]*syncMapModel{}
	}
	mm := syncMaps[m]
	if mm == nil {
		mm = &syncMapModel{}
		syncMaps[m] = mm
	}
	return mm
}

func (mm *syncMapModel) find(key any) int {
	for i, k := range mm.keys {
		if k == key {
			return i
		}
	}
	return -1
}

func SyncMapLoad(m *sync.Map, key any) (any, bool) {
	mm := syncMapOf(m)
	if i := mm.find(key); i >= 0 {
		return mm.vals[i], true
	}
	return nil, false
}

func SyncMapStore(m *sync.Map, key, value any) {
	mm := syncMapOf(m)
	if i := mm.find(key); i >= 0 {
		mm.vals[i] = value
		return
	}
	mm.keys, mm.vals = append(mm.keys, key), append(mm.vals, value)
}

func SyncMapLoadOrStore(m *sync.Map, key, value any) (any, bool) {
	mm := syncMapOf(m)
	if i := mm.find(key); i >= 0 {
		return mm.vals[i], true
	}
	mm.keys, mm.vals = append(mm.keys, key), append(mm.vals, value)
	return value, false
}

func SyncMapLoadAndDelete(m *sync.Map, key any) (any, bool) {
	mm := syncMapOf(m)
	if i := mm.find(key); i >= 0 {
		v := mm.vals[i]
		mm.keys = append(mm.keys[:i:i], mm.keys[i+1:]...)
		mm.vals = append(mm.vals[:i:i], mm.vals[i+1:]...)
		return v, true
	}
	return nil, false
}

func SyncMapDelete(m *sync.Map, key any) { SyncMapLoadAndDelete(m, key) }

func SyncMapRange(m *sync.Map, f func(key, value any) bool) {
	mm := syncMapOf(m)
	keys := append([]any{}, mm.keys...)
	vals := append([]any{}, mm.vals...)
	for i := range keys {
		if !f(keys[i], vals[i]) {
			return
		}
	}
}

// RunReplay is called from the generated test: it loads the case named by
// $VERIF_REPLAY and runs the harness function natively on the model.
func RunReplay(funcs map[string]func()) {
	b, err := os.ReadFile(os.Getenv("VERIF_REPLAY"))
	if err != nil {
		fmt.Println("REPLAY-ERROR:", err)
		return
	}
	var c replayCase
	if err := json.Unmarshal(b, &c); err != nil {
		fmt.Println("REPLAY-ERROR:", err)
		return
	}
	f := funcs[c.Func]
	if f == nil {
		fmt.Println("REPLAY-ERROR: unknown function", c.Func)
		return
	}
	vector, cursor, violations, replayErr = c.Model, 0, nil, ""
	func() {
		defer func() {
			if r := recover(); r != nil {
				if _, ok := r.(assumeFailed); ok {
					if replayErr == "" && len(violations) == 0 {
						replayErr = "assumption failed natively"
					}
					return
				}
				msg := fmt.Sprint(r)
				st := string(debug.Stack())
				if len(st) > 3000 {
					st = st[:3000]
				}
				fmt.Println(st)
				violations = append(violations, "panic: "+strings.ReplaceAll(msg, "\n", " "))
			}
		}()
		f()
	}()
	if replayErr != "" && len(violations) == 0 {
		fmt.Println("REPLAY-ERROR:", replayErr)
		return
	}
	if len(violations) == 0 {
		fmt.Println("REPLAY-RESULT: ok")
		return
	}
	fmt.Println("REPLAY-RESULT: " + strings.Join(violations, " | "))
}
