package interp

// Intrinsics: hand-written models of functions that cannot be interpreted
// from SSA (no body, unsafe, runtime-bound) or that are deliberately kept
// opaque (formatting). Every intrinsic that is hit is reported in evidence.

import (
	"fmt"
	"go/types"
	"sort"
	"strings"

	"golang.org/x/tools/go/ssa"
)

// IntrinsicHits counts calls per intrinsic name.
var IntrinsicHits = map[string]int{}

func bytesToValues(s string) []value {
	out := make([]value, len(s))
	for i := 0; i < len(s); i++ {
		out[i] = s[i]
	}
	return out
}

func valuesToString(v value) string {
	switch x := v.(type) {
	case string:
		return x
	case []value:
		b := make([]byte, len(x))
		for i := range x {
			c, ok := x[i].(byte)
			if !ok {
				panic(unsupported("symbolic bytes where concrete text is required"))
			}
			b[i] = c
		}
		return string(b)
	case sstring:
		panic(unsupported("symbolic string where concrete text is required"))
	}
	panic(unsupported(fmt.Sprintf("valuesToString %T", v)))
}

// byteSeq returns the bytes of a string or []byte value.
func byteSeq(v value) []value {
	switch x := v.(type) {
	case string:
		return bytesToValues(x)
	case sstring:
		return x.b
	case []value:
		return x
	}
	panic(unsupported(fmt.Sprintf("byteSeq %T", v)))
}

func allConcrete(b []value) bool {
	for _, c := range b {
		if _, ok := c.(byte); !ok {
			return false
		}
	}
	return true
}

// byteEq decides (forking if symbolic) whether two byte values are equal.
func byteEq(a, b value) bool {
	x, xok := a.(byte)
	y, yok := b.(byte)
	if xok && yok {
		return x == y
	}
	return X.decide("(= " + term(a, types.Uint8) + " " + term(b, types.Uint8) + ")")
}

func byteEqTerm(a, b value) string {
	x, xok := a.(byte)
	y, yok := b.(byte)
	if xok && yok {
		if x == y {
			return "true"
		}
		return "false"
	}
	return "(= " + term(a, types.Uint8) + " " + term(b, types.Uint8) + ")"
}

func mkBool(t string) value {
	switch t {
	case "true":
		return true
	case "false":
		return false
	}
	return symBool{t}
}

func andTerms(ts []string) string {
	var out []string
	for _, t := range ts {
		if t == "false" {
			return "false"
		}
		if t != "true" {
			out = append(out, t)
		}
	}
	switch len(out) {
	case 0:
		return "true"
	case 1:
		return out[0]
	}
	return "(and " + strings.Join(out, " ") + ")"
}

func orTerms(ts []string) string {
	var out []string
	for _, t := range ts {
		if t == "true" {
			return "true"
		}
		if t != "false" {
			out = append(out, t)
		}
	}
	switch len(out) {
	case 0:
		return "false"
	case 1:
		return out[0]
	}
	return "(or " + strings.Join(out, " ") + ")"
}

func notTerm(t string) string {
	switch t {
	case "true":
		return "false"
	case "false":
		return "true"
	}
	if strings.HasPrefix(t, "(not ") && balanced(t[5:len(t)-1]) {
		return t[5 : len(t)-1]
	}
	return "(not " + t + ")"
}

func balanced(s string) bool {
	d := 0
	for i := 0; i < len(s); i++ {
		switch s[i] {
		case '(':
			d++
		case ')':
			d--
			if d < 0 {
				return false
			}
		}
	}
	return d == 0
}

// seqEqTerm is the term "a and b are equal byte sequences".
func seqEqTerm(a, b []value) string {
	if len(a) != len(b) {
		return "false"
	}
	ts := make([]string, len(a))
	for i := range a {
		ts[i] = byteEqTerm(a[i], b[i])
	}
	return andTerms(ts)
}

func indexByteSeq(s []value, c value) int {
	for i := range s {
		if byteEq(s[i], c) {
			return i
		}
	}
	return -1
}

func lastIndexByteSeq(s []value, c value) int {
	for i := len(s) - 1; i >= 0; i-- {
		if byteEq(s[i], c) {
			return i
		}
	}
	return -1
}

func indexSeq(s, sub []value) int {
	for i := 0; i+len(sub) <= len(s); i++ {
		t := seqEqTerm(s[i:i+len(sub)], sub)
		switch t {
		case "true":
			return i
		case "false":
			continue
		}
		if X.decide(t) {
			return i
		}
	}
	return -1
}

func countByteSeq(s []value, c value) int {
	n := 0
	for i := range s {
		if byteEq(s[i], c) {
			n++
		}
	}
	return n
}

func compareSeq(a, b []value) int {
	for i := 0; i < len(a) && i < len(b); i++ {
		if byteEq(a[i], b[i]) {
			continue
		}
		x, xok := a[i].(byte)
		y, yok := b[i].(byte)
		if xok && yok {
			if x < y {
				return -1
			}
			return 1
		}
		if X.decide("(bvult " + term(a[i], types.Uint8) + " " + term(b[i], types.Uint8) + ")") {
			return -1
		}
		return 1
	}
	switch {
	case len(a) < len(b):
		return -1
	case len(a) > len(b):
		return 1
	}
	return 0
}

func init() {
	E := func(name string, f externalFn) {
		externals[name] = func(fr *frame, args []value) value {
			IntrinsicHits[name]++
			return f(fr, args)
		}
	}
	noop := func(fr *frame, args []value) value { return nil }
	for _, k := range []string{
		"(*sync.Mutex).Lock", "(*sync.Mutex).Unlock",
		"(*sync.RWMutex).Lock", "(*sync.RWMutex).Unlock",
		"(*sync.RWMutex).RLock", "(*sync.RWMutex).RUnlock",
		"(*sync.Pool).Put", "runtime.SetFinalizer", "runtime.KeepAlive",
	} {
		E(k, noop)
	}
	E("(*sync.Mutex).TryLock", func(fr *frame, args []value) value { return true })
	E("(*sync.Pool).Get", func(fr *frame, args []value) value {
		p := (*(args[0].(*value))).(structure)
		newf := p[len(p)-1]
		switch f := newf.(type) {
		case *closure:
			if f == nil {
				return iface{}
			}
		case *ssa.Function:
			if f == nil {
				return iface{}
			}
		case nil:
			return iface{}
		}
		return call(fr.i, fr, 0, newf, nil)
	})
	// sync.Once: the done flag lives in the Once value itself.
	E("(*sync.Once).Do", func(fr *frame, args []value) value {
		o := (*(args[0].(*value))).(structure)
		if b, ok := o[len(o)-1].(bool); ok && b {
			return nil
		}
		o[len(o)-1] = true
		call(fr.i, fr, 0, args[1], nil)
		return nil
	})

	ld := func(fr *frame, args []value) value { return *(args[0].(*value)) }
	st := func(fr *frame, args []value) value { *(args[0].(*value)) = args[1]; return nil }
	cas := func(fr *frame, args []value) value {
		p := args[0].(*value)
		if *p == args[1] {
			*p = args[2]
			return true
		}
		return false
	}
	for _, t := range []string{"Int32", "Uint32", "Int64", "Uint64", "Uintptr", "Pointer"} {
		E("sync/atomic.Load"+t, ld)
		E("sync/atomic.Store"+t, st)
		E("sync/atomic.CompareAndSwap"+t, cas)
		E("sync/atomic.Swap"+t, func(fr *frame, args []value) value {
			p := args[0].(*value)
			old := *p
			*p = args[1]
			return old
		})
	}
	E("sync/atomic.AddInt32", func(fr *frame, args []value) value {
		p := args[0].(*value)
		*p = (*p).(int32) + args[1].(int32)
		return *p
	})
	E("sync/atomic.AddUint32", func(fr *frame, args []value) value {
		p := args[0].(*value)
		*p = (*p).(uint32) + args[1].(uint32)
		return *p
	})
	E("sync/atomic.AddInt64", func(fr *frame, args []value) value {
		p := args[0].(*value)
		*p = (*p).(int64) + args[1].(int64)
		return *p
	})
	E("sync/atomic.AddUint64", func(fr *frame, args []value) value {
		p := args[0].(*value)
		*p = (*p).(uint64) + args[1].(uint64)
		return *p
	})

	// sort.Slice / SliceStable: the host's own implementation (the same
	// toolchain builds the engine and the code under test, so it is the
	// algorithm the native build runs - which matters when the comparison
	// function is not a consistent order) driven by the target's less
	// function over the engine's slice; a symbolic comparison result forks.
	mkSort := func(stable bool) externalFn {
		return func(fr *frame, args []value) value {
			s := args[0].(iface).v.([]value)
			less := func(i, j int) bool {
				switch r := call(fr.i, fr, 0, args[1], []value{i, j}).(type) {
				case bool:
					return r
				case symBool:
					return X.decide(r.t)
				}
				panic(unsupported("sort.Slice less result"))
			}
			if stable {
				sort.SliceStable(s, less)
			} else {
				sort.Slice(s, less)
			}
			return nil
		}
	}
	E("sort.Slice", mkSort(false))
	E("sort.SliceStable", mkSort(true))

	// internal/bytealg and friends over byte sequences with symbolic bytes.
	E("internal/bytealg.IndexByteString", func(fr *frame, args []value) value { return indexByteSeq(byteSeq(args[0]), args[1]) })
	E("internal/bytealg.IndexByte", func(fr *frame, args []value) value { return indexByteSeq(byteSeq(args[0]), args[1]) })
	E("internal/bytealg.LastIndexByteString", func(fr *frame, args []value) value { return lastIndexByteSeq(byteSeq(args[0]), args[1]) })
	E("internal/bytealg.LastIndexByte", func(fr *frame, args []value) value { return lastIndexByteSeq(byteSeq(args[0]), args[1]) })
	E("internal/bytealg.CountString", func(fr *frame, args []value) value { return countByteSeq(byteSeq(args[0]), args[1]) })
	E("internal/bytealg.Count", func(fr *frame, args []value) value { return countByteSeq(byteSeq(args[0]), args[1]) })
	E("internal/bytealg.IndexString", func(fr *frame, args []value) value { return indexSeq(byteSeq(args[0]), byteSeq(args[1])) })
	E("internal/bytealg.Index", func(fr *frame, args []value) value { return indexSeq(byteSeq(args[0]), byteSeq(args[1])) })
	E("internal/stringslite.Index", func(fr *frame, args []value) value { return indexSeq(byteSeq(args[0]), byteSeq(args[1])) })
	E("strings.Index", func(fr *frame, args []value) value { return indexSeq(byteSeq(args[0]), byteSeq(args[1])) })
	E("bytes.Index", func(fr *frame, args []value) value { return indexSeq(byteSeq(args[0]), byteSeq(args[1])) })
	E("strings.IndexByte", func(fr *frame, args []value) value { return indexByteSeq(byteSeq(args[0]), args[1]) })
	E("bytes.IndexByte", func(fr *frame, args []value) value { return indexByteSeq(byteSeq(args[0]), args[1]) })
	E("internal/bytealg.Equal", func(fr *frame, args []value) value { return mkBool(seqEqTerm(byteSeq(args[0]), byteSeq(args[1]))) })
	E("bytes.Equal", func(fr *frame, args []value) value { return mkBool(seqEqTerm(byteSeq(args[0]), byteSeq(args[1]))) })
	E("internal/bytealg.Compare", func(fr *frame, args []value) value { return compareSeq(byteSeq(args[0]), byteSeq(args[1])) })
	E("internal/bytealg.MakeNoZero", func(fr *frame, args []value) value {
		s := make([]value, asInt64(args[0]))
		for i := range s {
			s[i] = byte(0)
		}
		return s
	})
	E("strings.Count", func(fr *frame, args []value) value {
		a, sep := byteSeq(args[0]), byteSeq(args[1])
		if len(sep) == 1 {
			return countByteSeq(a, sep[0])
		}
		if len(sep) == 0 {
			return strings.Count(valuesToString(args[0]), "")
		}
		// non-overlapping occurrences, left to right
		n := 0
		for i := 0; i+len(sep) <= len(a); {
			t := seqEqTerm(a[i:i+len(sep)], sep)
			hit := t == "true"
			if t != "true" && t != "false" {
				hit = X.decide(t)
			}
			if hit {
				n++
				i += len(sep)
			} else {
				i++
			}
		}
		return n
	})
	E("strings.Replace", func(fr *frame, args []value) value {
		return strings.Replace(valuesToString(args[0]), valuesToString(args[1]), valuesToString(args[2]), int(asInt64(args[3])))
	})
	delete(externals, "strings.ToLower")
	delete(externals, "strings.EqualFold")
	delete(externals, "unicode/utf8.DecodeRuneInString")
	delete(externals, "strconv.Atoi")
	delete(externals, "strconv.Itoa")
	delete(externals, "sort.Ints")
	delete(externals, "sort.Strings")
	delete(externals, "sort.Float64s")
	delete(externals, "os.Getenv")
	delete(externals, "time.Sleep")
	delete(externals, "fmt.Sprint")

	// fmt: formatted natively; error/Stringer arguments are rendered by
	// interpreting the target's method; symbolic scalars are rendered as
	// placeholders (formatting is never the subject of a property).
	E("fmt.Sprintf", func(fr *frame, args []value) value {
		return fmt.Sprintf(valuesToString(args[0]), goArgs(fr, args[1].([]value))...)
	})
	E("fmt.Sprint", func(fr *frame, args []value) value {
		return fmt.Sprint(goArgs(fr, args[0].([]value))...)
	})
	E("fmt.Sprintln", func(fr *frame, args []value) value {
		return fmt.Sprintln(goArgs(fr, args[0].([]value))...)
	})
	E("fmt.Errorf", func(fr *frame, args []value) value {
		format := valuesToString(args[0])
		msg := fmt.Sprintf(strings.ReplaceAll(format, "%w", "%v"), goArgs(fr, args[1].([]value))...)
		return iface{t: errorType, v: msg}
	})
	w := func(f func(format string, a ...any) string, hasFormat bool) externalFn {
		return func(fr *frame, args []value) value {
			var s string
			if hasFormat {
				s = f(valuesToString(args[1]), goArgs(fr, args[2].([]value))...)
			} else {
				s = f("", goArgs(fr, args[1].([]value))...)
			}
			return callMethod(fr, args[0].(iface), "Write", bytesToValues(s))
		}
	}
	E("fmt.Fprintf", w(fmt.Sprintf, true))
	E("fmt.Fprintln", w(func(_ string, a ...any) string { return fmt.Sprintln(a...) }, false))
	E("fmt.Fprint", w(func(_ string, a ...any) string { return fmt.Sprint(a...) }, false))
}

var errorIface = types.Universe.Lookup("error").Type().Underlying().(*types.Interface)

func callMethod(fr *frame, recv iface, name string, args ...value) value {
	if recv.t == nil {
		panic("method invoked on nil interface")
	}
	if recv.t == errorType && name == "Error" {
		return recv.v
	}
	ms := fr.i.prog.MethodSets.MethodSet(recv.t)
	for k := 0; k < ms.Len(); k++ {
		sel := ms.At(k)
		if sel.Obj().Name() == name {
			fn := lookupMethod(fr.i, recv.t, sel.Obj().(*types.Func))
			if fn == nil {
				fn = fr.i.prog.MethodValue(sel)
			}
			return call(fr.i, fr, 0, fn, append([]value{recv.v}, args...))
		}
	}
	panic(unsupported("no method " + name + " on " + recv.t.String()))
}

func hasMethod(fr *frame, t types.Type, name string) bool {
	if t == errorType {
		return name == "Error"
	}
	ms := fr.i.prog.MethodSets.MethodSet(t)
	for k := 0; k < ms.Len(); k++ {
		if f := ms.At(k).Obj().(*types.Func); f.Name() == name {
			sig := f.Type().(*types.Signature)
			return sig.Params().Len() == 0 && sig.Results().Len() == 1 && kindOf(sig.Results().At(0).Type()) == types.String
		}
	}
	return false
}

// goArgs converts interpreter values into host values for native formatting.
func goArgs(fr *frame, vs []value) []any {
	out := make([]any, len(vs))
	for i, a := range vs {
		it, ok := a.(iface)
		if !ok {
			out[i] = goScalar(a)
			continue
		}
		if it.t != nil {
			if p, isPtr := it.v.(*value); !(isPtr && p == nil) {
				if hasMethod(fr, it.t, "Error") {
					out[i] = symText(callMethod(fr, it, "Error"))
					continue
				}
				if hasMethod(fr, it.t, "String") {
					out[i] = symText(callMethod(fr, it, "String"))
					continue
				}
			}
		}
		out[i] = goScalar(it.v)
	}
	return out
}

func symText(v value) string {
	switch v := v.(type) {
	case string:
		return v
	case sstring:
		b := make([]byte, len(v.b))
		for i, c := range v.b {
			if cb, ok := c.(byte); ok {
				b[i] = cb
			} else {
				b[i] = '?'
			}
		}
		return string(b)
	}
	return toString(v)
}

func goScalar(v value) any {
	switch v := v.(type) {
	case nil, bool, int, int8, int16, int32, int64, uint, uint8, uint16, uint32, uint64, uintptr, float32, float64, string:
		return v
	case symInt, symBool:
		return "<sym>"
	case sstring:
		return symText(v)
	case []value:
		if allConcrete(v) && len(v) > 0 {
			return valuesToString(v)
		}
	}
	return toString(v)
}

func init() {
	E := func(name string, f externalFn) {
		externals[name] = func(fr *frame, args []value) value {
			IntrinsicHits[name]++
			return f(fr, args)
		}
	}
	// strings.Builder uses unsafe to avoid a copy; model it on the value level.
	E("(*strings.Builder).copyCheck", func(fr *frame, args []value) value { return nil })
	E("(*strings.Builder).String", func(fr *frame, args []value) value {
		b := (*(args[0].(*value))).(structure)
		buf, _ := b[1].([]value)
		return mkString(append([]value{}, buf...))
	})
	E("internal/abi.NoEscape", func(fr *frame, args []value) value { return args[0] })
	E("internal/abi.Escape", func(fr *frame, args []value) value { return args[0] })
}
