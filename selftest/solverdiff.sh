#!/bin/bash
# usage: selftest/solverdiff.sh <Cxx> [entry] — run once per encoding change: re-decides the quick tier's queries
# of a property (2 workers, no native replay) with z3 4.8.12 and cvc5 and compares them with z3 5.1.0's answers.
set -u
cd "$(dirname "$0")/.."
export GOFLAGS=-mod=mod GOPROXY=off GOSUMDB=off GOTOOLCHAIN=local VERIF_DIR="$(pwd)" VERIF_REPO="${VERIF_REPO:-/repo}"
d=$(mktemp -d "${TMPDIR:-/tmp}/verif-smtlog-XXXX"); trap 'rm -rf $d' EXIT
args=(-prop "$1" -tier quick -workers 2 -no-replay); [ -n "${2:-}" ] && args+=(-entry "$2")
SYMGO_NO_EVIDENCE=1 SYMGO_SMTLOG=$d/q ./.build/symgo run "${args[@]}" > $d.out 2>&1; tail -1 $d.out; rm -f $d.out
python3 selftest/solverdiff.py $d ${SOLVERDIFF_MAX:-20000}
