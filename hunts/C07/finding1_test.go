package main

// finding1_test.go -- goes in the repository root (package main).
//
// C07: "If a rewrite would produce unparseable text, gopatch reports an error
// for that file, exits non-zero, and does not emit or write it, in every mode
// and with every flag combination."
//
// A "..." on a "+" line in a position that is not a list (operand of a binary
// expression, switch tag, slice bound, value of a key-value pair, labeled
// statement, select case, for-clause with init/post) compiles without error.
// The replacer then copies the *pgo.Dots placeholder into the Go AST of the
// file.  That AST cannot be printed; instead of a per-file error the process
// panics (ast.Walk: unexpected node type *pgo.Dots) and the remaining files
// are never processed.

import (
	"bytes"
	"fmt"
	"os"
	"path/filepath"
	"strings"
	"testing"
)

func runFinding1(t *testing.T, patch, src string, flags ...string) (err error, panicked any, after string) {
	t.Helper()
	dir := t.TempDir()
	pf := filepath.Join(dir, "p.patch")
	sf := filepath.Join(dir, "in.go")
	if e := os.WriteFile(pf, []byte(patch), 0o644); e != nil {
		t.Fatal(e)
	}
	if e := os.WriteFile(sf, []byte(src), 0o644); e != nil {
		t.Fatal(e)
	}
	var stdout, stderr bytes.Buffer
	cmd := mainCmd{
		Stdin:  strings.NewReader(""),
		Stdout: &stdout,
		Stderr: &stderr,
		Getwd:  func() (string, error) { return dir, nil },
	}
	args := append([]string{"-p", pf}, flags...)
	args = append(args, sf)
	func() {
		defer func() { panicked = recover() }()
		err = cmd.Run(args)
	}()
	bs, _ := os.ReadFile(sf)
	return err, panicked, string(bs)
}

func TestFinding1_DotsInNonListPositionOnPlusSide(t *testing.T) {
	tests := []struct{ name, patch, src string }{
		{
			name:  "binary operand",
			patch: "@@\nvar x expression\n@@\n-foo(x)\n+bar(x + ...)\n",
			src:   "package p\n\nfunc f() {\n\tfoo(1)\n}\n",
		},
		{
			name:  "switch tag",
			patch: "@@\n@@\n-switch x {\n+switch ... {\n case 1:\n }\n",
			src:   "package p\n\nfunc f(x int) {\n\tswitch x {\n\tcase 1:\n\t}\n}\n",
		},
		{
			name:  "slice bound",
			patch: "@@\nvar x expression\n@@\n-foo(x)\n+x[...:]\n",
			src:   "package p\n\nvar v = foo(s)\n",
		},
		{
			name:  "key-value value",
			patch: "@@\nvar x expression\n@@\n-foo(x)\n+T{K: ...}\n",
			src:   "package p\n\nvar v = foo(s)\n",
		},
		{
			name:  "for clause with init and post",
			patch: "@@\n@@\n-for ... {\n+for i := 0; ...; i++ {\n   foo()\n }\n",
			src:   "package p\n\nfunc f() {\n\tfor {\n\t\tfoo()\n\t}\n}\n",
		},
	}
	for _, tt := range tests {
		for _, flags := range [][]string{nil, {"--print-only"}, {"--diff"}, {"--skip-import-processing"}} {
			t.Run(fmt.Sprintf("%s%v", tt.name, flags), func(t *testing.T) {
				err, panicked, after := runFinding1(t, tt.patch, tt.src, flags...)
				if panicked != nil {
					t.Fatalf("gopatch panicked instead of reporting an error for the file: %v", panicked)
				}
				// Either the patch is rejected / the file gets an error ...
				if err == nil {
					t.Errorf("expected an error: the rewrite cannot be printed as Go")
				}
				// ... and in any case the file must be left alone.
				if after != tt.src {
					t.Errorf("file was modified:\n%s", after)
				}
			})
		}
	}
}
