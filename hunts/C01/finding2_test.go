package patch

// Finding 2 (property C01): a statement pattern that starts with an explicit
// "..." line never matches anything.
//
// Place this file in the directory  patch/  (package patch) and run
//   go test ./patch/ -run TestFinding2

import (
	"strings"
	"testing"
)

func apply2(t *testing.T, patch, src string) string {
	t.Helper()
	f, err := Parse("p.patch", []byte(patch))
	if err != nil {
		t.Fatalf("parse patch: %v", err)
	}
	out, err := f.Apply("a.go", []byte(src))
	if err != nil {
		t.Fatalf("apply: %v", err)
	}
	return string(out)
}

const finding2Src = `package p

func f() {
	x()
	foo()
	y()
}

func g() {
	foo()
}
`

func TestFinding2_LeadingDots(t *testing.T) {
	got := apply2(t, "@@\n@@\n ...\n-foo()\n+bar()\n", finding2Src)
	if strings.Contains(got, "foo()") || strings.Count(got, "bar()") != 2 {
		t.Errorf("foo() statements were not rewritten:\n%s", got)
	}
}

func TestFinding2_LeadingAndTrailingDots(t *testing.T) {
	got := apply2(t, "@@\n@@\n ...\n-foo()\n+bar()\n ...\n", finding2Src)
	if strings.Contains(got, "foo()") || strings.Count(got, "bar()") != 2 {
		t.Errorf("foo() statements were not rewritten:\n%s", got)
	}
}

// Control: the same patch without the leading "..." (or with only a trailing
// one) rewrites both functions.
func TestFinding2_ControlTrailingDotsOnly(t *testing.T) {
	got := apply2(t, "@@\n@@\n-foo()\n+bar()\n ...\n", finding2Src)
	if strings.Contains(got, "foo()") || strings.Count(got, "bar()") != 2 {
		t.Errorf("foo() statements were not rewritten:\n%s", got)
	}
}
