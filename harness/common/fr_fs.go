package main

// File-system model of the F-R skeleton beyond os.ReadFile / os.WriteFile:
// whatever way the code under test chooses to persist a file (WriteFile;
// OpenFile/Create + Write + Close; CreateTemp + Write + Close + Rename) ends
// in the same "write" effect carrying the bytes that became the file's
// content, so the oracles do not depend on the representation. Every other
// mutation (creating or removing a file, truncating open, chmod) is an
// "fsmut" effect: forbidden wherever writes are forbidden.

import (
	"errors"
	"fmt"
	"io/fs"
	"os"
	"time"

	"github.com/uber-go/gopatch/internal/zzverif/nd"
)

type frFileInfo struct {
	name string
	size int64
}

func (i frFileInfo) Name() string       { return i.name }
func (i frFileInfo) Size() int64        { return i.size }
func (i frFileInfo) Mode() fs.FileMode  { return 0o644 }
func (i frFileInfo) ModTime() time.Time { return time.Time{} }
func (i frFileInfo) IsDir() bool        { return false }
func (i frFileInfo) Sys() any           { return nil }

type frHandle struct {
	name   string
	file   int // target file index, or the file being processed for temporaries
	temp   bool
	write  bool
	buf    []byte
	closed bool
	failed bool
}

var (
	frHandles map[*os.File]*frHandle
	frTemps   map[string]*frHandle
)

// frDiskT is the persistent state: what every path holds at this instant.
// With crashAt > 0 the run is interrupted (panic frCrash) after that many
// system-call level operations; with allowShort a write may persist only a
// solver-chosen prefix and fail.
type frDiskT struct {
	content    map[string][]byte
	ops        int
	crashAt    int
	allowShort bool
	allowOpen  bool // a failing open is drawn as "openErr"
}

type frCrash struct{}

var frDisk *frDiskT

func frDiskInit() *frDiskT {
	if frDisk == nil {
		frDisk = &frDiskT{content: map[string][]byte{}}
		for i, n := range frEnv.names {
			frDisk.content[n] = frEnv.content[i]
		}
	}
	return frDisk
}

func (d *frDiskT) step() {
	d.ops++
	if d.crashAt > 0 && d.ops == d.crashAt {
		panic(frCrash{})
	}
}

func frHandleOf(f *os.File) *frHandle {
	if frHandles == nil {
		return nil
	}
	return frHandles[f]
}

func StubFRStat(name string) (os.FileInfo, error) {
	e := frEnv
	if i := e.fileByName(name); i >= 0 {
		return frFileInfo{name: name, size: int64(len(e.content[i]))}, nil
	}
	if h, ok := frTemps[name]; ok {
		return frFileInfo{name: name, size: int64(len(h.buf))}, nil
	}
	return nil, &fs.PathError{Op: "stat", Path: name, Err: fs.ErrNotExist}
}

func StubFRChmod(name string, mode os.FileMode) error {
	e := frEnv
	i := e.fileByName(name)
	if i < 0 {
		i = e.cur
	}
	e.log(frEffect{kind: "fsmut", file: i, name: "chmod " + name})
	return nil
}

func frOpen(name string, write, trunc, temp bool) (*os.File, error) {
	e := frEnv
	if frHandles == nil {
		frHandles = map[*os.File]*frHandle{}
		frTemps = map[string]*frHandle{}
	}
	i := e.fileByName(name)
	if i < 0 {
		i = e.cur
	}
	h := &frHandle{name: name, file: i, temp: temp, write: write}
	d := frDiskInit()
	if write {
		d.step()
		e.log(frEffect{kind: "fsmut", file: i, name: "open-for-write " + name})
		if !temp && i >= 0 && frDraw(&e.writeErr[i], fmt.Sprintf("writeErr%d", i), frAllow.writeErr) {
			return nil, errors.New("open " + name + ": no space left on device")
		}
		if d.allowOpen && nd.Bool("openErr") {
			return nil, errors.New("open " + name + ": no space left on device")
		}
		if trunc || temp {
			d.content[name] = nil
		}
		d.step()
	}
	f := new(os.File)
	frHandles[f] = h
	if temp {
		frTemps[name] = h
	}
	return f, nil
}

func StubFROpenFile(name string, flag int, perm os.FileMode) (*os.File, error) {
	w := flag&(os.O_WRONLY|os.O_RDWR|os.O_CREATE|os.O_TRUNC|os.O_APPEND) != 0
	return frOpen(name, w, flag&os.O_TRUNC != 0, false)
}

func StubFRCreate(name string) (*os.File, error) { return frOpen(name, true, true, false) }

func StubFRCreateTemp(dir, pattern string) (*os.File, error) {
	if dir == "" {
		dir = "/tmp"
	}
	// deterministic name: runs of one environment are compared effect by effect
	return frOpen(dir+"/"+pattern+".tmp", true, true, true)
}

func StubFRFileWrite(f *os.File, b []byte) (int, error) {
	h := frHandleOf(f)
	if h == nil || h.closed || !h.write {
		return 0, errors.New("write: bad file descriptor")
	}
	d := frDiskInit()
	n := len(b)
	if d.allowShort && nd.Bool("shortWrite") {
		n = nd.Choose("written", len(b)) // 0 .. len-1 bytes persisted
	}
	h.buf = append(h.buf, b[:n]...)
	d.content[h.name] = append(append([]byte{}, d.content[h.name]...), b[:n]...)
	d.step()
	if n < len(b) {
		h.failed = true
		return n, errors.New("write " + h.name + ": no space left on device")
	}
	return n, nil
}

func StubFRFileWriteString(f *os.File, s string) (int, error) { return StubFRFileWrite(f, []byte(s)) }

func StubFRFileName(f *os.File) string {
	if h := frHandleOf(f); h != nil {
		return h.name
	}
	return ""
}

func StubFRFileSync(f *os.File) error { return nil }

func StubFRFileChmod(f *os.File, mode os.FileMode) error {
	if h := frHandleOf(f); h != nil {
		frEnv.log(frEffect{kind: "fsmut", file: h.file, name: "chmod " + h.name})
	}
	return nil
}

func StubFRFileClose(f *os.File) error {
	h := frHandleOf(f)
	if h == nil || h.closed {
		return errors.New("close: file already closed")
	}
	h.closed = true
	frDiskInit().step()
	if h.write && !h.temp {
		// the bytes written through this handle are now the file's content
		frEnv.log(frEffect{kind: "write", file: h.file, name: h.name, data: append([]byte{}, h.buf...)})
	}
	return nil
}

func StubFRRename(oldpath, newpath string) error {
	e := frEnv
	h, ok := frTemps[oldpath]
	i := e.fileByName(newpath)
	d := frDiskInit()
	d.step()
	if !ok {
		e.log(frEffect{kind: "fsmut", file: i, name: "rename " + oldpath + " -> " + newpath})
		return nil
	}
	if i >= 0 && frDraw(&e.writeErr[i], fmt.Sprintf("writeErr%d", i), frAllow.writeErr) {
		return errors.New("rename " + oldpath + " " + newpath + ": no space left on device")
	}
	delete(frTemps, oldpath)
	d.content[newpath] = d.content[oldpath] // atomic
	delete(d.content, oldpath)
	e.log(frEffect{kind: "write", file: i, name: newpath, data: append([]byte{}, h.buf...)})
	return nil
}

func StubFRRemove(name string) error {
	e := frEnv
	d := frDiskInit()
	d.step()
	if _, ok := frTemps[name]; ok {
		delete(frTemps, name) // discarding a temporary is not a mutation of the user's files
		delete(d.content, name)
		return nil
	}
	delete(d.content, name)
	e.log(frEffect{kind: "fsmut", file: e.fileByName(name), name: "remove " + name})
	return nil
}
