package section

import (
	"go/token"

	"github.com/uber-go/gopatch/internal/zzverif/nd"
)

// VerifT00Split: Split on n symbolic ASCII bytes either fails or returns changes.
func VerifT00Split() {
	n := nd.Param("N", 4)
	content := nd.Bytes("b", n)
	for i := range content {
		nd.Assume(content[i] < 0x80)
	}
	fset := token.NewFileSet()
	prog, err := Split(fset, "p.patch", content)
	nd.Assert((err != nil) != (len(prog) > 0 && err == nil), "either changes or error")
	nd.Reach("done")
}

// VerifT00Bug has a seeded off-by-one.
func VerifT00Bug() {
	x := nd.Int("x")
	nd.Assume(x >= 0 && x <= 10)
	buf := make([]byte, 10)
	buf[x] = 1
	nd.Reach("done")
}

// VerifT00Concrete is a concrete differential probe.
func VerifT00Concrete() {
	fset := token.NewFileSet()
	prog, err := Split(fset, "p.patch", []byte("\n\n\n"))
	nd.Assert(err != nil, "err must be non-nil")
	nd.Assert(len(prog) > 0, "prog must be non-empty")
	nd.Assert((err != nil) != (len(prog) > 0), "xor (expected to FAIL)")
	nd.Reach("done")
}

// VerifT00Arith: identities over the symbolic division / remainder / shift
// operators (must all hold for every value).
func VerifT00Arith() {
	x := int16(nd.Int32("x")) // 16-bit: the division identities are hard for bit-blasting at 64 bits
	u := uint16(nd.Uint32("u"))
	c := nd.Byte("c")
	nd.Assert(x/32*32+x%32 == x, "signed div/rem identity")
	nd.Assert(x/-7*-7+x%-7 == x, "signed div/rem identity, negative divisor")
	nd.Assert(u/10*10+u%10 == u, "unsigned div/rem identity")
	nd.Assert(nd.Implies(x >= 0, x%32 >= 0 && x%32 < 32), "remainder range")
	nd.Assert(nd.Implies(x < 0, x%32 <= 0 && x%32 > -32), "remainder sign follows the dividend")
	var one uint32 = 1
	nd.Assert(one<<(c%32) != 0, "shift by a symbolic in-range amount")
	nd.Assert(one<<c == 0 || c < 32, "shift by >= width gives 0")
	nd.Assert((u>>c)<<c <= u || c >= 16, "shift right then left")
	var set [8]uint32
	set['.'/32] |= 1 << ('.' % 32)
	in := set[c/32]&(1<<(c%32)) != 0
	nd.Assert(in == (c == '.'), "ascii set membership")
	nd.Reach("done")
}

// VerifT00ArithBug: the solver must find the inputs and they must replay natively.
func VerifT00ArithBug() {
	x := nd.Int("x")
	c := nd.Byte("c")
	nd.Assume(x > -1000 && x < 1000)
	nd.Assert(x/7 != -13 || x%7 != -3, "x = -94 expected")
	var one uint32 = 1
	nd.Assert(one<<c != 1<<17, "c = 17 expected")
	nd.Reach("done")
}

// VerifT00RuneString: string(r) of a symbolic ASCII rune.
func VerifT00RuneString() {
	c := nd.Byte("c")
	nd.Assume(c < 0x80)
	s := string(rune(c))
	nd.Assert(len(s) == 1 && s[0] == c, "string(rune) of an ASCII rune is that byte")
	nd.Assert(s != "q", "c = 113 expected")
	nd.Reach("done")
}
