package main

// Shared F-R harness: the real mainCmd.Run / patchRunner.Apply executed over
// a symbolic environment. Every stub is a function of (file, change) only and
// memoises the outcome it draws, so several Runs inside one path see the same
// environment (self-composition).

import (
	"errors"
	"fmt"
	"go/ast"
	"go/parser"
	"go/token"
	"io"
	"log"
	"os"

	flags "github.com/jessevdk/go-flags"
	"github.com/pkg/diff/write"
	"github.com/uber-go/gopatch/internal/astdiff"
	"github.com/uber-go/gopatch/internal/data"
	"github.com/uber-go/gopatch/internal/engine"
	"github.com/uber-go/gopatch/internal/zzverif/nd"
	"golang.org/x/tools/imports"
)

type frEffect struct {
	kind string // stdout | stderr | diff | write | match | replace | readfile | parse | format | process
	file int    // file index, -1 if unknown
	chg  int    // change index for match/replace
	data []byte // bytes emitted / written (diff: the modified side)
	orig []byte // diff: the original side
	name string // path given to the sink
}

type frTri struct {
	set, val bool
}

type frEnvT struct {
	nfiles   int
	nchanges []int // per program
	opts     *options

	names    []string // absolute paths
	content  [][]byte
	newBytes [][]byte
	asts     []*ast.File
	changes  []*engine.Change // flattened
	progs    []*engine.Program

	readErr, parseErr, generated, formatErr, parses, writeErr, stdoutErr []frTri
	match, replaceErr                                         [][]frTri

	effects    []frEffect
	cur        int // file currently processed (set by ReadFile)
	apiChanges []*engine.Change
}

var frEnv *frEnvT

func frDraw(t *frTri, name string, allow bool) bool {
	if !t.set {
		t.set = true
		if allow {
			t.val = nd.Bool(name)
		}
	}
	return t.val
}

// which outcomes may occur (task parameters switch fault classes on)
var frAllow struct{ readErr, parseErr, generated, replaceErr, formatErr, noParse, writeErr, stdoutErr bool }

func frNewEnv(nfiles int, nchanges []int) *frEnvT {
	e := &frEnvT{nfiles: nfiles, nchanges: nchanges, cur: -1}
	total := 0
	for p, n := range nchanges {
		prog := &engine.Program{}
		for c := 0; c < n; c++ {
			ch := &engine.Change{Name: fmt.Sprintf("p%dc%d", p, c), Comments: []string{fmt.Sprintf("desc-p%dc%d", p, c)}}
			prog.Changes = append(prog.Changes, ch)
			e.changes = append(e.changes, ch)
			total++
		}
		e.progs = append(e.progs, prog)
	}
	for i := 0; i < nfiles; i++ {
		e.names = append(e.names, fmt.Sprintf("/w/f%d.go", i))
		// original bytes: arbitrary (nothing on the path may look at them)
		e.content = append(e.content, append([]byte{'O', byte('0' + i)}, nd.Bytes(fmt.Sprintf("orig%d", i), 2)...))
		e.newBytes = append(e.newBytes, append([]byte{'N', byte('0' + i)}, nd.Bytes(fmt.Sprintf("new%d", i), 2)...))
		// the parsed file: a package clause and one import whose one-letter
		// path is arbitrary (so code that looks at what a file imports, e.g.
		// "C", is exercised for both answers)
		ib := nd.Byte(fmt.Sprintf("importpath%d", i))
		nd.Assume(nd.Or(nd.And(ib >= 'a', ib <= 'z'), nd.And(ib >= 'A', ib <= 'Z')))
		spec := &ast.ImportSpec{Path: &ast.BasicLit{ValuePos: 20, Kind: token.STRING, Value: "\"" + string([]byte{ib}) + "\""}}
		e.asts = append(e.asts, &ast.File{Package: 1, Name: &ast.Ident{NamePos: 9, Name: "p"},
			Decls:   []ast.Decl{&ast.GenDecl{TokPos: 12, Tok: token.IMPORT, Specs: []ast.Spec{spec}}},
			Imports: []*ast.ImportSpec{spec}})
		e.match = append(e.match, make([]frTri, total))
		e.replaceErr = append(e.replaceErr, make([]frTri, total))
	}
	e.readErr = make([]frTri, nfiles)
	e.parseErr = make([]frTri, nfiles)
	e.generated = make([]frTri, nfiles)
	e.formatErr = make([]frTri, nfiles)
	e.parses = make([]frTri, nfiles)
	e.writeErr = make([]frTri, nfiles)
	e.stdoutErr = make([]frTri, nfiles)
	return e
}

func (e *frEnvT) fileByName(name string) int {
	for i, n := range e.names {
		if n == name {
			return i
		}
	}
	return -1
}

func (e *frEnvT) fileByAST(f *ast.File) int {
	for i, a := range e.asts {
		if a == f {
			return i
		}
	}
	return -1
}

func (e *frEnvT) changeIndex(c *engine.Change) int {
	for i, x := range e.changes {
		if x == c {
			return i
		}
	}
	// changes of a patch.File built by the harness for the API run: the
	// k-th distinct one stands for change k of the same environment.
	for i, x := range e.apiChanges {
		if x == c {
			return i
		}
	}
	e.apiChanges = append(e.apiChanges, c)
	return len(e.apiChanges) - 1
}

func (e *frEnvT) log(fx frEffect) { e.effects = append(e.effects, fx) }

// ---- stubs (installed by SSA name through harness.json) ----

func StubFRArgParser() (*flags.Parser, *options) { return nil, frEnv.opts }

func StubFRParseArgs(p *flags.Parser, args []string) ([]string, error) { return nil, nil }

func StubFRLoadPatches(fset *token.FileSet, opts *options, stdin io.Reader) ([]*engine.Program, error) {
	return frEnv.progs, nil
}

func StubFRFindFiles(cwd string, patterns []string) ([]sourcePath, error) {
	var out []sourcePath
	for i, n := range frEnv.names {
		out = append(out, sourcePath{Provided: fmt.Sprintf("f%d.go", i), Absolute: n})
	}
	return out, nil
}

func StubFRReadFile(name string) ([]byte, error) {
	e := frEnv
	i := e.fileByName(name)
	e.cur = i
	e.log(frEffect{kind: "readfile", file: i, name: name})
	if frDraw(&e.readErr[i], fmt.Sprintf("readErr%d", i), frAllow.readErr) {
		return nil, errors.New("open " + name + ": permission denied")
	}
	return e.content[i], nil
}

func StubFRParseFile(fset *token.FileSet, filename string, src any, mode parser.Mode) (*ast.File, error) {
	e := frEnv
	i := e.fileByName(filename)
	if i < 0 {
		// not a target file (e.g. a pattern parsed while loading a patch): the real parser
		return parser.ParseFile(fset, filename, src, mode)
	}
	b, _ := src.([]byte)
	if i >= 0 && len(b) > 0 && b[0] != 'O' {
		// gopatch re-parses something it produced: honour the ghost bit
		e.log(frEffect{kind: "reparse", file: i, data: b})
		if !frParses(i) {
			return nil, errors.New(filename + ":1:1: expected declaration")
		}
		return e.asts[i], nil
	}
	e.log(frEffect{kind: "parse", file: i, name: filename})
	if frDraw(&e.parseErr[i], fmt.Sprintf("parseErr%d", i), frAllow.parseErr) {
		return nil, errors.New(filename + ":1:1: expected 'package'")
	}
	return e.asts[i], nil
}

func StubFRGenerated(f *ast.File) bool {
	e := frEnv
	i := e.fileByAST(f)
	return frDraw(&e.generated[i], fmt.Sprintf("generated%d", i), frAllow.generated)
}

func StubFRMatch(c *engine.Change, f *ast.File) (data.Data, bool) {
	e := frEnv
	i, k := e.fileByAST(f), e.changeIndex(c)
	e.log(frEffect{kind: "match", file: i, chg: k})
	return data.New(), frDraw(&e.match[i][k], fmt.Sprintf("match_f%d_c%d", i, k), true)
}

func StubFRReplace(c *engine.Change, d data.Data, cl engine.Changelog) (*ast.File, error) {
	e := frEnv
	i, k := e.cur, e.changeIndex(c)
	e.log(frEffect{kind: "replace", file: i, chg: k})
	if frDraw(&e.replaceErr[i][k], fmt.Sprintf("replaceErr_f%d_c%d", i, k), frAllow.replaceErr) {
		return nil, errors.New("could not replace: bad metavariable")
	}
	return e.asts[i], nil
}

func StubFRBefore(n ast.Node, comments ast.CommentMap) *astdiff.Snapshot { return nil }
func StubFRDiff(s *astdiff.Snapshot, n ast.Node, cl astdiff.Changelog) *astdiff.Snapshot {
	return nil
}
func StubFRCommentMap(fset *token.FileSet, node ast.Node, comments []*ast.CommentGroup) ast.CommentMap {
	return nil
}
func StubFRCleanup(tfile *token.File, cl engine.Changelog, comments []*ast.CommentGroup) {}

func StubFRFormatNode(dst io.Writer, fset *token.FileSet, node any) error {
	e := frEnv
	f, _ := node.(*ast.File)
	i := e.fileByAST(f)
	e.log(frEffect{kind: "format", file: i})
	if frDraw(&e.formatErr[i], fmt.Sprintf("formatErr%d", i), frAllow.formatErr) {
		return errors.New("format: invalid AST")
	}
	frParses(i) // the ghost bit belongs to the text produced here
	_, err := dst.Write(e.newBytes[i])
	return err
}

// frParses is the ghost bit "the bytes produced for file i parse as Go".
func frParses(i int) bool {
	e := frEnv
	if !e.parses[i].set {
		e.parses[i].set = true
		e.parses[i].val = true
		if frAllow.noParse {
			e.parses[i].val = nd.Bool(fmt.Sprintf("parses%d", i))
		}
	}
	return e.parses[i].val
}

// imports.Process re-parses its input: error iff it does not parse.
func StubFRProcess(filename string, src []byte, opt *imports.Options) ([]byte, error) {
	e := frEnv
	i := e.fileByName(filename)
	e.log(frEffect{kind: "process", file: i, name: fmt.Sprintf("%v/%v/%v/%v", opt.Comments, opt.TabIndent, opt.TabWidth, opt.FormatOnly)})
	if !frParses(i) {
		return nil, errors.New(filename + ":1:1: expected declaration")
	}
	return append([]byte{'I'}, src...), nil
}

func StubFRWriteFile(name string, data []byte, perm os.FileMode) error {
	e := frEnv
	i := e.fileByName(name)
	e.log(frEffect{kind: "write", file: i, name: name, data: append([]byte{}, data...)})
	if frDraw(&e.writeErr[i], fmt.Sprintf("writeErr%d", i), frAllow.writeErr) {
		return errors.New("write " + name + ": no space left on device")
	}
	return nil
}

func StubFRDiffText(aName, bName string, a, b any, w io.Writer, options ...write.Option) error {
	e := frEnv
	ab, _ := a.([]byte)
	bb, _ := b.([]byte)
	i := -1
	for k := range e.names {
		if aName == fmt.Sprintf("f%d.go", k) || aName == e.names[k] {
			i = k
		}
	}
	e.log(frEffect{kind: "diff", file: i, name: aName, orig: append([]byte{}, ab...), data: append([]byte{}, bb...)})
	return nil
}

func StubFRLogNew(out io.Writer, prefix string, flag int) *log.Logger { return nil }
func StubFRLogPrintf(l *log.Logger, format string, v ...any)          {}

type frWriter struct{ ch string }

func (w *frWriter) Write(p []byte) (int, error) {
	// standard output that cannot take the bytes of file cur (a full device, a closed pipe)
	if e := frEnv; w.ch == "stdout" && frAllow.stdoutErr && e.cur >= 0 && e.cur < len(e.stdoutErr) &&
		frDraw(&e.stdoutErr[e.cur], fmt.Sprintf("stdoutErr%d", e.cur), true) {
		return 0, errors.New("write /dev/stdout: no space left on device")
	}
	frEnv.log(frEffect{kind: w.ch, file: frEnv.cur, data: append([]byte{}, p...)})
	return len(p), nil
}

func frCmd() mainCmd {
	return mainCmd{
		Stdin:  nil,
		Stdout: &frWriter{"stdout"},
		Stderr: &frWriter{"stderr"},
		Getwd:  func() (string, error) { return "/w", nil },
	}
}

// frSymOpts draws the command-line flags.
func frSymOpts() *options {
	o := &options{
		Patches:              []string{"p.patch"},
		Diff:                 nd.Bool("diff"),
		Print:                nd.Bool("print"),
		SkipImportProcessing: nd.Bool("skipimports"),
		SkipGenerated:        nd.Bool("skipgenerated"),
		Verbose:              nd.Bool("verbose"),
	}
	o.Args.Patterns = []string{"."}
	return o
}

func frBytesEq(a, b []byte) bool { return nd.StrEq(string(a), string(b)) }

// frAnyMatch reports (as a term) whether some change matched file i, using
// only outcomes that were actually drawn.
func (e *frEnvT) anyMatch(i int) bool {
	r := false
	for k := range e.match[i] {
		if e.match[i][k].set {
			r = nd.Or(r, e.match[i][k].val)
		}
	}
	return r
}

func (e *frEnvT) effectsFor(i int, kinds ...string) []frEffect {
	var out []frEffect
	for _, fx := range e.effects {
		if fx.file != i {
			continue
		}
		for _, k := range kinds {
			if fx.kind == k {
				out = append(out, fx)
			}
		}
	}
	return out
}

// frAssertOwnBytes: whatever is emitted for file i (written, printed,
// diffed) is a function of file i alone: its own new bytes (after import
// processing unless skipped) or, for an echo, its own original bytes; and a
// file is emitted at most once per sink.
func frAssertOwnBytes(e *frEnvT) {
	for i := 0; i < e.nfiles; i++ {
		want := e.newBytes[i]
		if !e.opts.SkipImportProcessing {
			want = append([]byte{'I'}, want...)
		}
		n := 0
		for _, fx := range e.effects {
			if fx.file != i {
				continue
			}
			switch fx.kind {
			case "write", "diff":
				n++
				nd.Assert(frBytesEq(fx.data, want), fmt.Sprintf("file %d: emitted bytes are not this file's own result (another file's processing leaked in)", i))
				if fx.kind == "diff" {
					nd.Assert(frBytesEq(fx.orig, e.content[i]), fmt.Sprintf("file %d: diff is not against this file's original bytes", i))
				}
			case "stdout":
				n++
				nd.Assert(nd.Or(frBytesEq(fx.data, want), frBytesEq(fx.data, e.content[i])), fmt.Sprintf("file %d: printed bytes are neither this file's result nor its original bytes", i))
			}
		}
		nd.Assert(n <= 1, fmt.Sprintf("file %d: emitted more than once", i))
	}
}
