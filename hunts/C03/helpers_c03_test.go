package patch

// Helpers shared by the C03 finding tests (finding1_test.go ... finding6_test.go).
// Package directory: patch/

import (
	"fmt"
	"go/ast"
	"go/parser"
	"go/token"
	"reflect"
	"strings"
	"testing"
)

// c03Apply parses the patch, applies it to src and returns the output.
// Panics inside gopatch are turned into errors.
func c03Apply(t *testing.T, patchSrc, src string) (out string, err error) {
	t.Helper()
	defer func() {
		if p := recover(); p != nil {
			err = fmt.Errorf("PANIC: %v", p)
		}
	}()
	pf, err := Parse("c03.patch", []byte(patchSrc))
	if err != nil {
		t.Fatalf("patch does not load: %v", err)
	}
	bs, err := pf.Apply("a.go", []byte(src))
	return string(bs), err
}

// c03Shape is a canonical rendering of a Go file's syntax tree that ignores
// positions, comments, resolved objects and redundant parentheses, so that two
// sources compare equal iff they are the same code.
func c03Shape(t *testing.T, src string) string {
	t.Helper()
	f, err := parser.ParseFile(token.NewFileSet(), "a.go", src, parser.SkipObjectResolution)
	if err != nil {
		t.Fatalf("not parseable Go: %v\n%s", err, src)
	}
	var sb strings.Builder
	c03ShapeV(&sb, reflect.ValueOf(f.Decls))
	return sb.String()
}

func c03ShapeV(sb *strings.Builder, v reflect.Value) {
	switch v.Kind() {
	case reflect.Interface, reflect.Ptr:
		if v.IsNil() {
			sb.WriteString("nil")
			return
		}
		if v.Kind() == reflect.Ptr {
			switch x := v.Interface().(type) {
			case *ast.ParenExpr:
				c03ShapeV(sb, reflect.ValueOf(x.X))
				return
			case *ast.Object, *ast.CommentGroup, *ast.Scope:
				sb.WriteString("_")
				return
			}
		}
		c03ShapeV(sb, v.Elem())
	case reflect.Struct:
		t := v.Type()
		sb.WriteString(t.Name() + "{")
		for i := 0; i < t.NumField(); i++ {
			if t.Field(i).Type == reflect.TypeOf(token.Pos(0)) {
				continue
			}
			sb.WriteString(t.Field(i).Name + ":")
			c03ShapeV(sb, v.Field(i))
			sb.WriteString(",")
		}
		sb.WriteString("}")
	case reflect.Slice:
		sb.WriteString("[")
		for i := 0; i < v.Len(); i++ {
			c03ShapeV(sb, v.Index(i))
			sb.WriteString(",")
		}
		sb.WriteString("]")
	default:
		fmt.Fprintf(sb, "%v", v.Interface())
	}
}

// c03Expect applies the patch and requires the output to be the same code as want.
func c03Expect(t *testing.T, patchSrc, src, want string) {
	t.Helper()
	got, err := c03Apply(t, patchSrc, src)
	if err != nil {
		t.Fatalf("Apply failed: %v\n--- patch\n%s--- input\n%s--- expected\n%s", err, patchSrc, src, want)
	}
	if c03Shape(t, got) != c03Shape(t, want) {
		t.Fatalf("wrong rewrite\n--- patch\n%s--- input\n%s--- got\n%s--- expected\n%s", patchSrc, src, got, want)
	}
}
