package main

// Goes into the repository root (package main).
//
// C16: "Whenever a requested path, patch or file could not be processed the
// exit status is non-zero and stderr names the path and the cause".
//
// patchLoader.LoadFileList (loader.go) never looks at bufio.Scanner.Err().
// Any failure while reading the -P list (the path is a directory, an I/O
// error, a line longer than bufio.MaxScanTokenSize) silently ends the list:
// the patches that could not be read are not applied, nothing is printed,
// and the exit status is 0.

import (
	"bytes"
	"os"
	"path/filepath"
	"strings"
	"testing"
)

func TestFinding4_PatchesFileReadErrorIsSwallowed(t *testing.T) {
	newTree := func(t *testing.T) (root, patch, target string) {
		root = t.TempDir()
		patch = filepath.Join(root, "p.patch")
		target = filepath.Join(root, "a.go")
		if err := os.WriteFile(patch, []byte("@@\n@@\n-foo()\n+bar()\n"), 0o644); err != nil {
			t.Fatal(err)
		}
		if err := os.WriteFile(target, []byte("package a\n\nfunc f() {\n\tfoo()\n}\n"), 0o644); err != nil {
			t.Fatal(err)
		}
		return
	}

	run := func(t *testing.T, root string, args ...string) (error, string) {
		var stdout, stderr bytes.Buffer
		cmd := &mainCmd{
			Stdin:  new(bytes.Buffer),
			Stdout: &stdout,
			Stderr: &stderr,
			Getwd:  func() (string, error) { return root, nil },
		}
		return cmd.Run(args), stderr.String()
	}

	t.Run("list path is a directory", func(t *testing.T) {
		root, _, target := newTree(t)
		dir := filepath.Join(root, "patches.d")
		if err := os.Mkdir(dir, 0o755); err != nil {
			t.Fatal(err)
		}

		err, stderr := run(t, root, "-P", dir, "a.go")
		got, _ := os.ReadFile(target)
		if err == nil {
			t.Errorf("-P %q cannot be read (it is a directory) but Run returned nil; stderr=%q; a.go patched=%v",
				dir, stderr, strings.Contains(string(got), "bar()"))
		}
	})

	t.Run("over-long line hides the patches listed after it", func(t *testing.T) {
		root, patch, target := newTree(t)
		list := filepath.Join(root, "patches.lst")
		body := strings.Repeat("x", 70000) + "\n" + patch + "\n"
		if err := os.WriteFile(list, []byte(body), 0o644); err != nil {
			t.Fatal(err)
		}

		err, stderr := run(t, root, "-P", list, "a.go")
		got, _ := os.ReadFile(target)
		patched := strings.Contains(string(got), "bar()")
		if err == nil && !patched {
			t.Errorf("the list %q could not be read to its end: p.patch was never loaded, "+
				"a.go is unpatched, but Run returned nil and stderr=%q", list, stderr)
		}
	})
}
