package patch

// Goes in: patch/ (package github.com/uber-go/gopatch/patch).
//
// C08: "It never panics". Both "..." stand in a list of *ast.Field, so they
// are paired, and the fields of the struct are copied into the method list of
// an interface. go/printer assumes that a named field of an interface has a
// function type (f.Type.(*ast.FuncType)) and panics.

import (
	"fmt"
	"testing"
)

func TestFinding6_StructFieldsMovedIntoInterface(t *testing.T) {
	const patchSrc = "@@\n@@\n-type T struct{ ... }\n+type T interface{ ... }\n"
	const goSrc = "package a\n\ntype T struct {\n\ta int\n}\n"

	defer func() {
		if p := recover(); p != nil {
			t.Fatalf("panic instead of an error: %v", fmt.Sprint(p))
		}
	}()
	f, err := Parse("p.patch", []byte(patchSrc))
	if err != nil {
		t.Fatalf("patch must parse: %v", err)
	}
	_, _ = f.Apply("a.go", []byte(goSrc))
}
