#!/bin/bash
# usage: tools/seedkeep.sh <Cxx> <A|B> <caught|missed> "<what it needs>" "<check result note>"
id=$1; m=$2; res=$3; needs=$4; note=$5; src=/tmp/wt/out_$id/$m
d=/verif/seeded/$id-$m; mkdir -p $d
cp $src/patch.diff $d/patch.diff
cp $src/$(ls $src | grep -E 'demo.*_test\.go|demo\.sh' | head -1) $d/
cp $src/README.txt $d/README.txt 2>/dev/null
python3 - "$id" "$m" "$res" "$needs" "$note" <<'PY'
import json,sys
id,m,res,needs,note=sys.argv[1:6]
json.dump({"property":id,"variant":m,"breaks":id,"needs_to_manifest":needs,
 "confirmed_by":"tools/seedverify.sh %s %s: builds, existing suite passes with the change, demo passes on the unchanged tree and fails with the change (scratch worktree under /tmp, removed)"%(id,m),
 "check_run":"git -C /repo apply seeded/%s-%s/patch.diff; ./check %s quick; git -C /repo checkout -- ."%(id,m,id),
 "check_result":res,"note":note,"author":"independent sub-agent given only the property text"},
 open("/verif/seeded/%s-%s/meta.json"%(id,m),"w"),indent=1)
PY
echo kept $d
