package interp

// Summaries of pure stdlib classifiers on the hot path of byte scanners:
// one boolean term instead of a fork per table case. Valid for ASCII
// arguments (r < 0x80); anything else makes the path inconclusive. Each is
// validated exhaustively against the interpreted table code by the engine
// self-test (harness T00, entry "classifiers").

import (
	"go/types"
)

var symExternals = map[string]externalFn{}

func anySym(args []value) bool {
	for _, a := range args {
		if isSym(a) {
			return true
		}
	}
	return false
}

func asciiOnly(r symInt, what string) {
	u := resize(symInt{r.t, types.Uint32}, types.Uint32)
	if !X.decide("(bvult " + u.t + " " + bvc(0x80, 32) + ")") {
		panic(unsupported(what + " beyond ASCII"))
	}
}

func inRange(r symInt, lo, hi uint64) string {
	w := width(r.k)
	u := symInt{r.t, types.Uint32}
	_ = u
	return "(and (bvuge " + r.t + " " + bvc(lo, w) + ") (bvule " + r.t + " " + bvc(hi, w) + "))"
}

func init() {
	S := func(name string, f func(r symInt) string) {
		symExternals[name] = func(fr *frame, args []value) value {
			IntrinsicHits["summary:"+name]++
			r := args[0].(symInt)
			asciiOnly(r, name)
			return symBool{X.share(f(r), "Bool")}
		}
	}
	S("unicode.IsSpace", func(r symInt) string {
		var alts []string
		for _, c := range []uint64{9, 10, 11, 12, 13, 32} {
			alts = append(alts, "(= "+r.t+" "+bvc(c, width(r.k))+")")
		}
		return orTerms(alts)
	})
	S("unicode.IsLetter", func(r symInt) string {
		return orTerms([]string{inRange(r, 'A', 'Z'), inRange(r, 'a', 'z')})
	})
	S("unicode.IsDigit", func(r symInt) string { return inRange(r, '0', '9') })
	S("unicode.IsUpper", func(r symInt) string { return inRange(r, 'A', 'Z') })
	S("unicode.IsLower", func(r symInt) string { return inRange(r, 'a', 'z') })
}
