package patch

// Package directory: patch/   (needs helpers_c03_test.go next to it)
//
// Finding 6: with a statement pattern only the FIRST match site of every
// statement list is rewritten; further sites in the same block (with their own
// bindings) are left unchanged although their replacement is admissible.

import "testing"

func TestC03Finding6_OnlyFirstSitePerBlock(t *testing.T) {
	const p = "@@\nvar x expression\n@@\n-foo(x)\n+bar(x)\n+baz(x)\n"
	const src = "package p\n\nfunc f() {\n\tfoo(1)\n\tfoo(2)\n\tif c {\n\t\tfoo(3)\n\t\tfoo(4)\n\t}\n\tfoo(5)\n}\n"
	const want = "package p\n\nfunc f() {\n\tbar(1)\n\tbaz(1)\n\tbar(2)\n\tbaz(2)\n\tif c {\n\t\tbar(3)\n\t\tbaz(3)\n\t\tbar(4)\n\t\tbaz(4)\n\t}\n\tbar(5)\n\tbaz(5)\n}\n"
	c03Expect(t, p, src, want)
}
