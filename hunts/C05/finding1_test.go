package main

// C05 finding 1: an import that the patch lists as *context* (no +/-) is
// removed from the file although the patch never asked for that and the
// import is still needed. Goes in the repository root (package main).

import (
	"bytes"
	"os"
	"path/filepath"
	"strings"
	"testing"
)

func runGopatchF1(t *testing.T, patch, src string) string {
	t.Helper()
	dir := t.TempDir()
	pp := filepath.Join(dir, "p.patch")
	gp := filepath.Join(dir, "a.go")
	if err := os.WriteFile(pp, []byte(patch), 0o644); err != nil {
		t.Fatal(err)
	}
	if err := os.WriteFile(gp, []byte(src), 0o644); err != nil {
		t.Fatal(err)
	}
	var stdout, stderr bytes.Buffer
	cmd := &mainCmd{Stdin: strings.NewReader(""), Stdout: &stdout, Stderr: &stderr, Getwd: os.Getwd}
	if err := cmd.Run([]string{"-p", pp, gp}); err != nil {
		t.Fatalf("gopatch failed: %v\n%s", err, stderr.String())
	}
	out, err := os.ReadFile(gp)
	if err != nil {
		t.Fatal(err)
	}
	return string(out)
}

func TestFinding1_ContextImportRemoved(t *testing.T) {
	t.Run("path base differs from package name", func(t *testing.T) {
		out := runGopatchF1(t, `@@
var x expression
@@
 import "example.com/mod/v2"

-mod.Old(x)
+mod.New(x)
`, `package a

import (
	"fmt"

	"example.com/mod/v2"
)

func f() {
	fmt.Println(mod.Old(1))
	mod.Other()
}
`)
		if !strings.Contains(out, `"example.com/mod/v2"`) {
			t.Errorf("context import \"example.com/mod/v2\" was removed although it is still used:\n%s", out)
		}
	})

	t.Run("dot import", func(t *testing.T) {
		out := runGopatchF1(t, `@@
var x expression
@@
 import . "math"

-Sqrt(x)
+Cbrt(x)
`, `package a

import (
	"fmt"
	. "math"
)

func f() {
	fmt.Println(Sqrt(1), Abs(2))
}
`)
		if !strings.Contains(out, `. "math"`) {
			t.Errorf("context import . \"math\" was removed although it is still used:\n%s", out)
		}
	})

	t.Run("blank import", func(t *testing.T) {
		out := runGopatchF1(t, `@@
@@
 import _ "embed"

-var data string
+var data []byte
`, `package a

import _ "embed"

//go:embed hello.txt
var data string
`)
		if !strings.Contains(out, `_ "embed"`) {
			t.Errorf("context import _ \"embed\" was removed (//go:embed no longer compiles):\n%s", out)
		}
	})
}
