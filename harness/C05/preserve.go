package engine

import (
	"reflect"
	"strings"

	"github.com/uber-go/gopatch/internal/zzverif/nd"
)

// Files with many kinds of surrounding code; everything outside ⟦⟧ must come
// out of the rewrite syntactically identical, in the same order.
var c05Cases = []faCase{
	{name: "generics-labels-tags",
		patch: "@@\nvar x expression\n@@\n-old(x)\n+new(x)\n",
		minus: "//go:build linux\n\npackage pkg\n\ntype Pair[K comparable, V any] struct {\n\tKey K `json:\"key\"`\n\tVal V `json:\"val,omitempty\"`\n}\n\nconst raw = `multi\nline`\n\nfunc Map[T, U any](xs []T, f func(T) U) []U {\n\tvar out []U\nloop:\n\tfor i, x := range xs {\n\t\tif i > 10 {\n\t\t\tbreak loop\n\t\t}\n\t\tout = append(out, f(x))\n\t}\n\t_ = ⟦old(«x:out[0]»)⟧\n\treturn out\n}\n\nvar after = map[string][]int{\"a\": {1, 2}, \"b\": nil}\n\nfunc last() (n int, err error) {\n\tdefer func() { recover() }()\n\tgo ⟦old(«x:n»)⟧\n\treturn\n}\n",
		plus:  "//go:build linux\n\npackage pkg\n\ntype Pair[K comparable, V any] struct {\n\tKey K `json:\"key\"`\n\tVal V `json:\"val,omitempty\"`\n}\n\nconst raw = `multi\nline`\n\nfunc Map[T, U any](xs []T, f func(T) U) []U {\n\tvar out []U\nloop:\n\tfor i, x := range xs {\n\t\tif i > 10 {\n\t\t\tbreak loop\n\t\t}\n\t\tout = append(out, f(x))\n\t}\n\t_ = ⟦new(«x»)⟧\n\treturn out\n}\n\nvar after = map[string][]int{\"a\": {1, 2}, \"b\": nil}\n\nfunc last() (n int, err error) {\n\tdefer func() { recover() }()\n\tgo ⟦new(«x»)⟧\n\treturn\n}\n"},
	{name: "stmt-in-clauses",
		patch: "@@\nvar m identifier\n@@\n-m.Lock()\n-defer m.Unlock()\n+guard(m)\n",
		minus: "package pkg\n\nfunc f(c chan int, k int) {\n\tswitch v := k; {\n\tcase v > 1, v < -1:\n\t\tbefore(v)\n\t\t⟦«m:mu».Lock()\n\t\tdefer «m:mu».Unlock()⟧\n\t\tafter(v)\n\tdefault:\n\t\tother()\n\t}\n\tselect {\n\tcase x := <-c:\n\t\t⟦«m:rw».Lock()\n\t\tdefer «m:rw».Unlock()⟧\n\t\tuse(x)\n\tcase c <- 1:\n\t}\n\tif k > 0 {\n\t\tfirst()\n\t} else if k < 0 {\n\t\t⟦«m:zz».Lock()\n\t\tdefer «m:zz».Unlock()⟧\n\t}\n}\n",
		plus:  "package pkg\n\nfunc f(c chan int, k int) {\n\tswitch v := k; {\n\tcase v > 1, v < -1:\n\t\tbefore(v)\n\t\t⟦guard(«m»)⟧\n\t\tafter(v)\n\tdefault:\n\t\tother()\n\t}\n\tselect {\n\tcase x := <-c:\n\t\t⟦guard(«m»)⟧\n\t\tuse(x)\n\tcase c <- 1:\n\t}\n\tif k > 0 {\n\t\tfirst()\n\t} else if k < 0 {\n\t\t⟦guard(«m»)⟧\n\t}\n}\n"},
	{name: "decls-between-decls",
		patch: "@@\nvar T identifier\n@@\n-type T struct{}\n+type T struct{ mu sync.Mutex }\n",
		minus: "package pkg\n\nimport \"sync\"\n\nvar a = 1\n\n⟦type «T:Box» struct{}⟧\n\nfunc (b *Box) M() {}\n\ntype (\n\tOther int\n\tThird = Other\n)\n\n⟦type «T:Bag» struct{}⟧\n\nvar z sync.Mutex\n",
		plus:  "package pkg\n\nimport \"sync\"\n\nvar a = 1\n\n⟦type «T» struct{ mu sync.Mutex }⟧\n\nfunc (b *Box) M() {}\n\ntype (\n\tOther int\n\tThird = Other\n)\n\n⟦type «T» struct{ mu sync.Mutex }⟧\n\nvar z sync.Mutex\n"},
	{name: "decl-pattern-adds-import",
		patch: "@@\nvar f identifier\n@@\n+import \"sync\"\n\n-func f() {}\n+func f() { var mu sync.Mutex; _ = mu }\n",
		minus: "package pkg\n\nfunc first() int { return 1 }\n\n⟦func «f:foo»() {}⟧\n\nvar mid = \"m\"\n\n⟦func «f:bar»() {}⟧\n\nfunc last() { _ = 0 }\n",
		plus:  "package pkg\n\nimport \"sync\"\n\nfunc first() int { return 1 }\n\n⟦func «f»() { var mu sync.Mutex; _ = mu }⟧\n\nvar mid = \"m\"\n\n⟦func «f»() { var mu sync.Mutex; _ = mu }⟧\n\nfunc last() { _ = 0 }\n"},
	{name: "decl-pattern-adds-second-import",
		patch: "@@\nvar f identifier\n@@\n+import \"sync\"\n\n-func f() {}\n+func f() { var mu sync.Mutex; _ = mu }\n",
		minus: "package pkg\n\nimport \"os\"\n\nfunc first() int { return len(os.Args) }\n\n⟦func «f:foo»() {}⟧\n\nfunc last() { _ = 0 }\n",
		plus:  "package pkg\n\nimport (\n\t\"os\"\n\t\"sync\"\n)\n\nfunc first() int { return len(os.Args) }\n\n⟦func «f»() { var mu sync.Mutex; _ = mu }⟧\n\nfunc last() { _ = 0 }\n"},
	{name: "for-dots-labeled",
		patch: "@@\nvar x expression\n@@\n for ... {\n   ...\n-  log(x)\n+  trace(x)\n   ...\n }\n",
		minus: "package pkg\n\nfunc nested(m [][]int) {\nouter:\n\tfor i := range m {\n\t\tif i > 3 {\n\t\t\tcontinue outer\n\t\t}\n\t\tlog(m[i])\n\t\tbreak outer\n\t}\n\t⟦for {\n\t\tlog(«x:1»)\n\t}⟧\nscan:\n\tfor j := 0; j < 3; j++ {\n\t\tcontinue scan\n\t}\n}\n",
		plus:  "package pkg\n\nfunc nested(m [][]int) {\nouter:\n\tfor i := range m {\n\t\tif i > 3 {\n\t\t\tcontinue outer\n\t\t}\n\t\tlog(m[i])\n\t\tbreak outer\n\t}\n\t⟦for {\n\t\ttrace(«x»)\n\t}⟧\nscan:\n\tfor j := 0; j < 3; j++ {\n\t\tcontinue scan\n\t}\n}\n"},
	{name: "args-with-closures",
		patch: "@@\nvar a, b expression\n@@\n-swap(a, b)\n+swap(b, a)\n",
		minus: "package pkg\n\nvar t = table{\n\t{name: \"x\", run: func() int { return ⟦swap(«a:1», «b:func() int { return 2 }()»)⟧ }},\n\t{name: \"y\", run: nil},\n}\n\nfunc g() {\n\tfor i := 0; i < 3; i++ {\n\t\tfunc(j int) {\n\t\t\th(j, ⟦swap(«a:j», «b:i»)⟧, j)\n\t\t}(i)\n\t}\n}\n",
		plus:  "package pkg\n\nvar t = table{\n\t{name: \"x\", run: func() int { return ⟦swap(«b», «a»)⟧ }},\n\t{name: \"y\", run: nil},\n}\n\nfunc g() {\n\tfor i := 0; i < 3; i++ {\n\t\tfunc(j int) {\n\t\t\th(j, ⟦swap(«b», «a»)⟧, j)\n\t\t}(i)\n\t}\n}\n"},
}

// VerifC05Preserve: after the rewrite every declaration, statement and
// expression outside the rewritten fragments is syntactically identical to
// the input and in the same order; names and literals of the surrounding
// code are arbitrary.
func VerifC05Preserve() {
	c := c05Cases[nd.Choose("case", len(c05Cases))]
	r := faPrepare(c)
	for k := range r.sites {
		r.symboliseSite(k)
		nd.Assume(r.want[k]) // every site is an instance
	}
	faRestSkipImports = strings.Contains(c.patch, "import ")
	r.symboliseRest()
	ch := r.prog.Changes[0]
	d, ok := ch.Match(r.file)
	nd.Assert(ok, c.name+": instances not found")
	if !ok {
		return
	}
	nd.Assert(c01CountMatches(d) == len(r.sites), c.name+": surrounding code was matched, or a site missed")
	out, err := ch.Replace(d, NewChangelog())
	nd.Assert(err == nil, c.name+": Replace failed")
	if err != nil {
		return
	}
	exp := r.expectedFile()
	nd.Assert(len(out.Decls) == len(exp.Decls), c.name+": a declaration was added, removed or duplicated")
	nd.Assert(faEqual(reflect.ValueOf(out.Decls), reflect.ValueOf(exp.Decls)), c.name+": code outside the rewritten fragments was altered, reordered, added or removed")
	nd.Assert(nd.StrEq(out.Name.Name, exp.Name.Name), c.name+": package clause changed")
	nd.Reach("done")
}
