package main

import (
	"go/ast"
	"go/token"

	"github.com/uber-go/gopatch/internal/zzverif/nd"
)

const (
	c18Prefix = "// Code generated "
	c18Suffix = " DO NOT EDIT."
)

// c18Text returns a comment text of length l with arbitrary bytes, starting
// with "//" or "/*"; a single newline may sit at one of a few offsets.
func c18Text(tag string, l int, nlAt []int) (text string, lines []string) {
	b := nd.Bytes(tag, l)
	nd.Assume(b[0] == '/')
	nd.Assume(nd.Or(b[1] == '/', b[1] == '*'))
	nl := -1
	if k := nd.Choose(tag+"nl", len(nlAt)+1); k > 0 {
		nl = nlAt[k-1]
	}
	for i := range b {
		nd.Assume(b[i] < 0x80)
		if i == nl {
			nd.Assume(b[i] == '\n')
		} else {
			nd.Assume(b[i] != '\n')
		}
	}
	text = string(b)
	if nl >= 0 {
		lines = []string{text[:nl], text[nl+1:]}
	} else {
		lines = []string{text}
	}
	return
}

func c18MarkerLine(line string) bool {
	if len(line) < len(c18Prefix)+len(c18Suffix) {
		return false
	}
	return nd.And(nd.StrEq(line[:len(c18Prefix)], c18Prefix), nd.StrEq(line[len(line)-len(c18Suffix):], c18Suffix))
}

func c18Contains(s, sub string) bool {
	r := false
	for i := 0; i+len(sub) <= len(s); i++ {
		r = nd.Or(r, nd.StrEq(s[i:i+len(sub)], sub))
	}
	return r
}

// VerifC18Predicate: checkGeneratedCode is true for every generated-code
// header and false when no marker precedes the package clause.
func VerifC18Predicate() {
	lens := []int{12, 31, 32}
	if nd.Param("LONG", 0) == 1 {
		lens = append(lens, 33, 45)
	}
	ng := 1 + nd.Choose("ngroups", nd.Param("G", 2))
	pkg := nd.Int("packagepos")
	nd.Assume(pkg >= 1)
	nd.Assume(pkg < 10000)
	f := &ast.File{Package: token.Pos(pkg), Name: &ast.Ident{Name: "p"}}
	prev := 0
	mustTrue, anyMarkerBefore := false, false
	var lastBefore *ast.CommentGroup
	var beforeFlags []bool
	var groups []*ast.CommentGroup
	for g := 0; g < ng; g++ {
		l := lens[nd.Choose("len", len(lens))]
		var nlAt []int
		switch l {
		case 12:
			nlAt = nil
		case 31, 32:
			nlAt = []int{l - 1}
		default:
			nlAt = []int{2, l - 32}
		}
		text, lines := c18Text("text", l, nlAt)
		pos := nd.Int("pos")
		nd.Assume(pos > prev)
		nd.Assume(pos < 10000)
		prev = pos + l
		nd.Assume(nd.Or(prev <= pkg, pos > pkg)) // comments do not overlap the clause
		cg := &ast.CommentGroup{List: []*ast.Comment{{Slash: token.Pos(pos), Text: text}}}
		groups = append(groups, cg)
		before := pos < pkg
		beforeFlags = append(beforeFlags, before)
		marker := false
		for _, ln := range lines {
			marker = nd.Or(marker, c18MarkerLine(ln))
		}
		mustTrue = nd.Or(mustTrue, nd.And(before, marker))
		anyMarkerBefore = nd.Or(anyMarkerBefore, nd.And(before, nd.Or(marker, c18Contains(text, "@generated"))))
	}
	f.Comments = groups
	// Doc: the last group before the clause, or nil
	if nd.Choose("doc", 2) == 1 {
		for g := range groups {
			if beforeFlags[g] {
				lastBefore = groups[g]
			}
		}
		f.Doc = lastBefore
		if lastBefore != nil {
			mustTrue = nd.Or(mustTrue, c18Contains(lastBefore.List[0].Text, "@generated"))
		}
	}
	got := checkGeneratedCode(f)
	nd.Assert(nd.Implies(mustTrue, got), "generated file not recognised")
	nd.Assert(nd.Implies(nd.Not(anyMarkerBefore), !got), "file without any marker before the package clause treated as generated")
	nd.Reach("done")
}

// VerifC18DocForms: the package comment carries "@generated" in every comment
// form a Go file can use for it (line comment, no space, block comment,
// directive-style lines such as //lint:..., //go:..., //nolint:..., tab
// separated), followed by solver-chosen text; a second comment line of
// arbitrary letters may precede it. The file must be recognised as
// generated; with the marker misspelt it must not be.
func VerifC18DocForms() {
	forms := []string{"// ", "//", "/* ", "//lint:file-ignore U1000 ", "//go:generate echo ", "//nolint:all ", "//\t", "//export x "}
	form := forms[nd.Choose("form", len(forms))]
	tail := nd.Str("tail", 3)
	for i := 0; i < len(tail); i++ {
		nd.Assume(nd.Or(nd.And(tail[i] >= 'a', tail[i] <= 'z'), tail[i] == ' '))
	}
	marker := "@generated"
	good := nd.Choose("spelling", 2) == 0
	if !good {
		marker = "@generate" // not the marker
		nd.Assume(tail[0] != 'd')
	}
	text := form + marker + tail
	if form == "/* " {
		text += " */"
	}
	doc := &ast.CommentGroup{}
	pos := 1
	if nd.Choose("leadline", 2) == 1 {
		lead := "// " + nd.Str("lead", 4)
		for i := 3; i < len(lead); i++ {
			nd.Assume(nd.And(lead[i] >= 'a', lead[i] <= 'z'))
		}
		doc.List = append(doc.List, &ast.Comment{Slash: token.Pos(pos), Text: lead})
		pos += len(lead) + 1
	}
	doc.List = append(doc.List, &ast.Comment{Slash: token.Pos(pos), Text: text})
	pos += len(text) + 1
	f := &ast.File{Doc: doc, Package: token.Pos(pos), Name: &ast.Ident{Name: "p", NamePos: token.Pos(pos + 8)}, Comments: []*ast.CommentGroup{doc}}
	got := checkGeneratedCode(f)
	if good {
		nd.Assert(got, "a file whose package comment contains @generated ("+form+"...) is not recognised as generated")
	} else {
		nd.Assert(!got, "a file without any marker is treated as generated")
	}
	nd.Reach("done")
}
