package patch

// Package directory: patch/   (needs helpers_c03_test.go next to it)
//
// Finding 4: when the instantiated replacement puts a composite literal
// "T{...}" at the top level of an if/for/switch header, the parentheses that
// Go requires there are not produced. The output is unparseable and the whole
// file (all its sites) is rejected with an error instead of being rewritten.

import "testing"

// README-style patch; the composite literal is in the captured code.
func TestC03Finding4_CompositeLiteralInCapturedCode(t *testing.T) {
	const p = "@@\nvar f expression\nvar err identifier\n@@\n-err := f\n-if err != nil {\n+if err := f; err != nil {\n   return err\n }\n"
	const src = `package p

func a() error {
	err := g()
	if err != nil {
		return err
	}
	return nil
}

func b() error {
	err := Options{A: 1}.Validate()
	if err != nil {
		return err
	}
	return nil
}
`
	const want = `package p

func a() error {
	if err := g(); err != nil {
		return err
	}
	return nil
}

func b() error {
	if err := (Options{A: 1}).Validate(); err != nil {
		return err
	}
	return nil
}
`
	c03Expect(t, p, src, want)
}

// The composite literal is in the '+' pattern.
func TestC03Finding4_CompositeLiteralInPattern(t *testing.T) {
	const p = "@@\nvar x expression\n@@\n-NewFoo(x)\n+Foo{X: x}\n"
	const src = `package p

func a() {
	v := NewFoo(1)
	if NewFoo(2).Valid() {
		use(v)
	}
	for _, e := range NewFoo(3).Items() {
		use(e)
	}
	switch NewFoo(4) {
	}
}
`
	const want = `package p

func a() {
	v := Foo{X: 1}
	if (Foo{X: 2}).Valid() {
		use(v)
	}
	for _, e := range (Foo{X: 3}).Items() {
		use(e)
	}
	switch (Foo{X: 4}) {
	}
}
`
	c03Expect(t, p, src, want)
}
