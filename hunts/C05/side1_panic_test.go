package main

// Side finding (a crash, not a C05 violation): a comment group emptied while
// cleaning up after one change makes a later change of the same patch panic.
// Goes in the repository root (package main).

import (
	"bytes"
	"os"
	"path/filepath"
	"strings"
	"testing"
)

func TestSide1_EmptiedCommentGroupPanicsLaterChange(t *testing.T) {
	const patch = `@@
@@
-var (
-  a = 1
-  b = 2
-)
+var a, b = 1, 2

@@
var x expression
@@
-import "x/foo"
+import "y/bar"

-foo.Do(x)
+bar.Do(x)

@@
var x expression
@@
-import "os"

-os.Exit(x)
+exit(x)
`
	const src = `package a // pc
import (
	"os" // os c
	"x/foo" // foo c
)
var (
	a = 1
	b = 2
)
func f() {
	foo.Do(1) // do
	os.Exit(2) // ex
}
`
	dir := t.TempDir()
	pp := filepath.Join(dir, "p.patch")
	gp := filepath.Join(dir, "a.go")
	if err := os.WriteFile(pp, []byte(patch), 0o644); err != nil {
		t.Fatal(err)
	}
	if err := os.WriteFile(gp, []byte(src), 0o644); err != nil {
		t.Fatal(err)
	}
	defer func() {
		if r := recover(); r != nil {
			t.Fatalf("gopatch panicked: %v", r)
		}
	}()
	var stdout, stderr bytes.Buffer
	cmd := &mainCmd{Stdin: strings.NewReader(""), Stdout: &stdout, Stderr: &stderr, Getwd: os.Getwd}
	if err := cmd.Run([]string{"-p", pp, gp}); err != nil {
		t.Fatalf("gopatch failed: %v\n%s", err, stderr.String())
	}
}
