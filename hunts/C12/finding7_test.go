package main

import (
	"bytes"
	"os"
	"path/filepath"
	"strings"
	"testing"
)

// C12 (borderline): "the bytes written in place by the default mode, the
// bytes printed by --print-only ... are all identical", "for all sets of
// files".
//
// a.go and b.go are two names (hard links) of one file. findFiles dedupes by
// absolute path only, and the default mode writes a.go before it reads b.go
// (os.WriteFile writes through the shared inode), so b.go is patched twice;
// the dry-run modes show the patch applied once to each.
func TestFinding7HardLinkedFilesPatchedTwice(t *testing.T) {
	const patch = "@@\nvar x expression\n@@\n-foo(x)\n+foo(wrap(x))\n"
	const src = "package a\n\nfunc f() {\n\tfoo(1)\n}\n"

	setup := func() string {
		dir := t.TempDir()
		if err := os.WriteFile(filepath.Join(dir, "p.patch"), []byte(patch), 0o644); err != nil {
			t.Fatal(err)
		}
		if err := os.WriteFile(filepath.Join(dir, "a.go"), []byte(src), 0o644); err != nil {
			t.Fatal(err)
		}
		if err := os.Link(filepath.Join(dir, "a.go"), filepath.Join(dir, "b.go")); err != nil {
			t.Skipf("hard links not supported: %v", err)
		}
		return dir
	}
	run := func(dir string, args ...string) string {
		var so, se bytes.Buffer
		cmd := &mainCmd{
			Stdin:  strings.NewReader(""),
			Stdout: &so,
			Stderr: &se,
			Getwd:  func() (string, error) { return dir, nil },
		}
		if err := cmd.Run(append([]string{"-p", filepath.Join(dir, "p.patch")}, args...)); err != nil {
			t.Fatal(err)
		}
		return so.String()
	}

	d1 := setup()
	printedB := run(d1, "--print-only", "b.go")

	d2 := setup()
	run(d2, ".")
	writtenB, _ := os.ReadFile(filepath.Join(d2, "b.go"))

	if string(writtenB) != printedB {
		t.Errorf("default mode left b.go as\n%s\nbut --print-only printed\n%s", writtenB, printedB)
	}
}
