package main

import (
	"fmt"

	"github.com/uber-go/gopatch/internal/zzverif/nd"
)

// VerifC07Valid: bytes that do not parse as Go never reach a file, stdout or
// the diff, and their existence makes the run fail, for every flag combination.
func VerifC07Valid() {
	nfiles := nd.Param("FILES", 2)
	frAllow.noParse = true
	frAllow.generated = true
	frAllow.formatErr = nd.Param("FORMATERR", 0) == 1
	frEnv = frNewEnv(nfiles, []int{1})
	frEnv.opts = frSymOpts()
	cmd := frCmd()
	err := cmd.Run(nil)
	e := frEnv
	for i := 0; i < nfiles; i++ {
		if !e.parses[i].set {
			continue // nothing was produced for this file
		}
		ok := e.parses[i].val
		for _, fx := range e.effectsFor(i, "write", "stdout", "diff") {
			if fx.kind == "stdout" && len(fx.data) > 0 && fx.data[0] == 'O' {
				continue // echo of the original bytes
			}
			nd.Assert(ok, fmt.Sprintf("file %d: text that does not parse was emitted (%s)", i, fx.kind))
		}
		nd.Assert(nd.Implies(nd.Not(ok), err != nil), fmt.Sprintf("file %d: an unparseable result was not reported as a failure", i))
	}
	// the ghost bit belongs to the bytes the printer produced for that file:
	// whatever is emitted must be exactly those bytes (after import processing)
	frAssertOwnBytes(e)
	nd.Reach("done")
}

// ReplayC07Valid realises the model and runs the real entry point.
func ReplayC07Valid() {
	s := frScenarioFromModel(nd.Param("FILES", 2), []int{1})
	s.frCheckNative(s.runNative())
}
