package main

import (
	"bytes"
	"os"
	"path/filepath"
	"strings"
	"syscall"
	"testing"
)

// C14: "The result for a file is ... the same whether the file is processed
// alone or together with any other files, in any argument order, before or
// after files that match, fail to parse or are skipped."
//
// A target that cannot be read (here: permission denied) makes mainCmd.Run
// stop the whole run: every file that sorts after it is left unpatched, while
// every file that sorts before it is patched. The same b.go processed alone
// (or next to a file that fails to *parse*) is patched.
func TestFinding1_UnreadableFileStopsLaterFiles(t *testing.T) {
	const patchText = "@@\n@@\n-foo()\n+bar()\n"
	const src = "package x\n\nfunc f() { foo() }\n"
	const want = "package x\n\nfunc f() { bar() }\n"

	run := func(t *testing.T, unreadable bool) (a0, b string, err error) {
		dir, mkErr := os.MkdirTemp("", "c14f1")
		if mkErr != nil {
			t.Fatal(mkErr)
		}
		defer os.RemoveAll(dir)
		if err := os.Chmod(dir, 0o777); err != nil {
			t.Fatal(err)
		}
		write := func(name, s string, mode os.FileMode) {
			p := filepath.Join(dir, name)
			if err := os.WriteFile(p, []byte(s), 0o666); err != nil {
				t.Fatal(err)
			}
			if err := os.Chmod(p, mode); err != nil {
				t.Fatal(err)
			}
		}
		write("p.patch", patchText, 0o666)
		write("a0.go", src, 0o666) // sorts before the unreadable file
		if unreadable {
			write("a1.go", src, 0o000)
		} else {
			write("a1.go", "package x\n\nfunc f( { foo() }\n", 0o666) // does not parse
		}
		write("b.go", src, 0o666) // sorts after it

		// root ignores file permissions: drop to an unprivileged euid
		// for the duration of the run.
		if os.Geteuid() == 0 {
			if err := syscall.Seteuid(65534); err != nil {
				t.Skipf("cannot drop privileges: %v", err)
			}
			defer syscall.Seteuid(0)
		}
		if unreadable {
			if _, rerr := os.ReadFile(filepath.Join(dir, "a1.go")); rerr == nil {
				t.Skip("could not make a file unreadable")
			}
		}

		var stdout, stderr bytes.Buffer
		cmd := mainCmd{
			Stdin:  strings.NewReader(""),
			Stdout: &stdout,
			Stderr: &stderr,
			Getwd:  func() (string, error) { return dir, nil },
		}
		err = cmd.Run([]string{"-p", filepath.Join(dir, "p.patch"), "a0.go", "a1.go", "b.go"})
		ab, _ := os.ReadFile(filepath.Join(dir, "a0.go"))
		bb, _ := os.ReadFile(filepath.Join(dir, "b.go"))
		return string(ab), string(bb), err
	}

	// Reference: a file that fails to parse does not influence its neighbours.
	a0, b, err := run(t, false)
	if err == nil || a0 != want || b != want {
		t.Fatalf("reference run (unparseable neighbour): err=%v a0=%q b=%q", err, a0, b)
	}

	a0, b, err = run(t, true)
	if err == nil {
		t.Errorf("expected an error for the unreadable file")
	}
	if a0 != want {
		t.Errorf("a0.go (before the unreadable file) was not patched: %q", a0)
	}
	if b != want {
		t.Errorf("b.go (after the unreadable file) was not patched although the same file is patched when processed alone: %q (err: %v)", b, err)
	}
}
