package patch

// Goes in: patch/ (package patch).
//
// C03 finding 5: instances of a statement pattern that stand where Go allows
// a single statement (after a label, as the init statement of if/switch, as
// the post statement of for) are never rewritten although the instantiated
// '+' statement is admissible there.

import (
	"strings"
	"testing"
)

func TestC03H2Finding5_StatementInSingleStatementPosition(t *testing.T) {
	const patchSrc = "@@\nvar x, y expression\n@@\n-x = append(x, y)\n+x.push(y)\n"
	const src = `package p

func A() {
	a = append(a, 1)
L:
	b = append(b, 2)
	for {
		goto L
	}
}

func B() {
	if e = append(e, 3); e != nil {
	}
	for i := 0; i < 3; q = append(q, i) {
	}
}
`
	pf, err := Parse("push.patch", []byte(patchSrc))
	if err != nil {
		t.Fatal(err)
	}
	out, err := pf.Apply("a.go", []byte(src))
	if err != nil {
		t.Fatal(err)
	}
	for _, want := range []string{"a.push(1)", "b.push(2)", "e.push(3)", "q.push(i)"} {
		if !strings.Contains(string(out), want) {
			t.Errorf("missing %q:\n%s", want, out)
		}
	}
}
