#!/usr/bin/env python3
"""Cross-solver diff: replays the SMT-LIB2 transcripts symgo wrote (SYMGO_SMTLOG) through other solvers
and compares every check-sat answer with the one symgo acted on. usage: solverdiff.py <logdir> [maxqueries]"""
import sys, os, subprocess, glob, time
logdir = sys.argv[1]; maxq = int(sys.argv[2]) if len(sys.argv) > 2 else 30000
solvers = {"z3-4.8.12": ["z3", "-in"], "cvc5": ["cvc5", "--incremental", "--lang", "smt2"]}
total = {k: [0, 0, 0] for k in solvers}  # compared, disagreements, unknown/errors
for f in sorted(glob.glob(os.path.join(logdir, "*"))):
    cmds, want, depth, n = [], [], 0, 0
    for line in open(f):
        line = line.rstrip("\n")
        if line.startswith("; => "):
            want.append(line[5:]); continue
        if line.startswith("(get-value"): continue
        if line.startswith("(push"): depth += 1
        if line.startswith("(pop"): depth -= 1
        cmds.append(line)
        if line == "(check-sat)": n += 1
        if n >= maxq and depth == 0 and line.startswith("(pop"): break
    want = want[:n]
    for name, cmd in solvers.items():
        script = "(set-logic ALL)\n" + "\n".join(cmds) + "\n(exit)\n"
        t0 = time.time()
        r = subprocess.run(cmd, input=script, capture_output=True, text=True, timeout=3600)
        got = [l.strip() for l in r.stdout.splitlines() if l.strip() in ("sat", "unsat", "unknown") or l.startswith("(error")]
        bad = unk = 0
        for i, w in enumerate(want):
            g = got[i] if i < len(got) else "missing"
            if g not in ("sat", "unsat") or w not in ("sat", "unsat"):
                unk += 1
            elif g != w:
                bad += 1
                print("DISAGREEMENT %s query %d of %s: symgo's solver said %s, %s says %s" % (name, i, os.path.basename(f), w, name, g))
        total[name][0] += len(want); total[name][1] += bad; total[name][2] += unk
        print("%s %s: %d queries compared, %d disagreements, %d unknown/missing, %.1fs" % (os.path.basename(f), name, len(want), bad, unk, time.time() - t0))
ok = all(v[1] == 0 for v in total.values())
print("SOLVER-DIFF", "OK" if ok else "FAILED", total)
sys.exit(0 if ok else 1)
