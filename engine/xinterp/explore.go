package interp

// Path exploration: stateless depth-first search by deterministic
// re-execution from the entry with a decision prefix; one incremental z3
// process per worker.

import (
	"bufio"
	"fmt"
	"io"
	"os"
	"os/exec"
	"strconv"
	"strings"
	"time"
)

// ---------------- solver ----------------

type solver struct {
	cmd     *exec.Cmd
	in      *bufio.Writer
	out     *bufio.Reader
	queries int
	sat     int
	unsat   int
	unknown int
	errors  int
	dur     time.Duration
	log     io.Writer // optional SMT-LIB2 transcript
}

// SolverCmd is the solver command line (incremental SMT-LIB2 on stdin).
var SolverCmd = []string{"z3-new", "-in"}

func newSolver() *solver {
	cmd := exec.Command(SolverCmd[0], SolverCmd[1:]...)
	in, _ := cmd.StdinPipe()
	out, _ := cmd.StdoutPipe()
	cmd.Stderr = os.Stderr
	if err := cmd.Start(); err != nil {
		panic("cannot start solver: " + err.Error())
	}
	s := &solver{cmd: cmd, in: bufio.NewWriterSize(in, 1<<16), out: bufio.NewReaderSize(out, 1<<16)}
	if p := os.Getenv("SYMGO_SMTLOG"); p != "" {
		f, err := os.OpenFile(fmt.Sprintf("%s.%d", p, os.Getpid()), os.O_CREATE|os.O_WRONLY|os.O_APPEND, 0o644)
		if err == nil {
			s.log = f
		}
	}
	s.send("(set-option :produce-models true)")
	if t := os.Getenv("SYMGO_Z3_TIMEOUT_MS"); t != "" {
		s.send("(set-option :timeout " + t + ")")
	}
	return s
}

func (s *solver) send(x string) {
	s.in.WriteString(x)
	s.in.WriteByte('\n')
	if s.log != nil {
		io.WriteString(s.log, x+"\n")
	}
}

func (s *solver) line() string {
	s.in.Flush()
	l, err := s.out.ReadString('\n')
	if err != nil {
		panic(unsupported("solver died: " + err.Error()))
	}
	return strings.TrimSpace(l)
}

// check returns "sat", "unsat" or "unknown".
func (s *solver) check() string {
	t0 := time.Now()
	s.queries++
	s.send("(check-sat)")
	r := s.line()
	s.dur += time.Since(t0)
	if s.log != nil {
		io.WriteString(s.log, "; => "+r+"\n")
	}
	switch r {
	case "sat":
		s.sat++
	case "unsat":
		s.unsat++
	default:
		if strings.HasPrefix(r, "(error") {
			s.errors++
			fmt.Fprintln(os.Stderr, "SOLVER-ERROR:", r)
		}
		s.unknown++
		return "unknown"
	}
	return r
}

// feasible reports whether c is satisfiable together with the current
// assertions; "unknown" counts as feasible and is recorded.
func (s *solver) feasible(c string) bool {
	s.send("(push)")
	s.send("(assert " + c + ")")
	r := s.check()
	s.send("(pop)")
	return r != "unsat"
}

func (s *solver) getValue(t string) uint64 {
	s.send("(get-value (" + t + "))")
	l := s.line()
	for strings.Count(l, "(") > strings.Count(l, ")") {
		l += " " + s.line()
	}
	i := strings.LastIndex(l, "#")
	if i < 0 {
		if strings.Contains(l, "true") {
			return 1
		}
		if strings.Contains(l, "false") {
			return 0
		}
		// (_ bvN w)
		if k := strings.Index(l, "(_ bv"); k >= 0 {
			f := strings.Fields(l[k+5:])
			n, _ := strconv.ParseUint(f[0], 10, 64)
			return n
		}
		panic(unsupported("cannot parse solver value: " + l))
	}
	v := strings.TrimRight(l[i:], ") ")
	if strings.HasPrefix(v, "#x") {
		n, _ := strconv.ParseUint(v[2:], 16, 64)
		return n
	}
	n, _ := strconv.ParseUint(v[2:], 2, 64)
	return n
}

// ---------------- explorer ----------------

// Decision is one recorded choice on a path.
type Decision struct {
	V int64   `json:"v"`           // branch: 0/1; concretise: chosen value
	X []int64 `json:"x,omitempty"` // concretise: values already explored (only on the last decision of a work item)
	C bool    `json:"c,omitempty"` // concretise (vs. branch)
}

// SymVar is a declared symbolic input, in declaration order.
type SymVar struct {
	Name  string `json:"name"`
	Width int    `json:"width"`
	Value uint64 `json:"value"`
	term  string
}

// Violation is a failed obligation together with a model.
type Violation struct {
	Kind  string   `json:"kind"` // assert | panic | steps | frozen
	Msg   string   `json:"msg"`
	Model []SymVar `json:"model"`
	Trail string   `json:"trail,omitempty"`
}

// PathResult is what one execution of the entry under a prefix produced.
type PathResult struct {
	Status       string       `json:"status"` // done | assume | infeasible | inconclusive | panic | steps
	Why          string       `json:"why,omitempty"`
	Where        string       `json:"where,omitempty"`
	New          [][]Decision `json:"new,omitempty"`
	Violations   []Violation  `json:"violations,omitempty"`
	Reach        []string     `json:"reach,omitempty"`
	Decisions    int          `json:"decisions"`
	SymDecisions int          `json:"sym_decisions"`
	Obligations  int          `json:"obligations"`
	Steps        int          `json:"steps"`
	NVars        int          `json:"nvars"`
	PC           []string     `json:"pc,omitempty"`
	Model        []SymVar     `json:"model,omitempty"`
	Notes        []string     `json:"notes,omitempty"`
}

type explorer struct {
	z        *solver
	prefix   []Decision
	trail    []Decision
	vars     []*SymVar
	pc       []string
	steps    int
	MaxSteps int
	res      *PathResult
	ndefs    int
	unknowns int
	params   map[string]int64
	effects  []value
}

// X is the explorer of the current path (one path at a time per process).
var X *explorer

func newExplorer(z *solver) *explorer {
	return &explorer{z: z, MaxSteps: 5_000_000, res: &PathResult{}}
}

func (e *explorer) fresh(name string, w int) string {
	n := fmt.Sprintf("nd!%s!%d", name, len(e.vars))
	e.z.send(fmt.Sprintf("(declare-const %s (_ BitVec %d))", n, w))
	e.vars = append(e.vars, &SymVar{Name: name, Width: w, term: n})
	return n
}

// share names a large term so that it is not duplicated textually.
func (e *explorer) share(t string, sort string) string {
	if len(t) < 512 || e == nil || e.z == nil {
		return t
	}
	n := fmt.Sprintf("t!%d", e.ndefs)
	e.ndefs++
	e.z.send("(define-fun " + n + " () " + sort + " " + t + ")")
	return n
}

func (e *explorer) assert(c string) {
	e.z.send("(assert " + c + ")")
	if len(c) < 2000 {
		e.pc = append(e.pc, c)
	} else {
		e.pc = append(e.pc, c[:2000]+"…")
	}
}

func (e *explorer) push(alt []Decision) {
	e.res.New = append(e.res.New, alt)
}

func (e *explorer) decide(c string) bool {
	if e.z == nil {
		panic(unsupported("symbolic branch outside exploration"))
	}
	c = e.share(c, "Bool")
	pos := len(e.trail)
	if pos < len(e.prefix) {
		d := e.prefix[pos]
		e.trail = append(e.trail, Decision{V: d.V})
		if d.V == 1 {
			e.assert(c)
		} else {
			e.assert("(not " + c + ")")
		}
		return d.V == 1
	}
	e.res.SymDecisions++
	t := e.z.feasible(c)
	f := e.z.feasible("(not " + c + ")")
	switch {
	case t && f:
		alt := append(append([]Decision{}, e.trail...), Decision{V: 0})
		e.push(alt)
		e.trail = append(e.trail, Decision{V: 1})
		e.assert(c)
		return true
	case t:
		e.trail = append(e.trail, Decision{V: 1})
		e.assert(c)
		return true
	case f:
		e.trail = append(e.trail, Decision{V: 0})
		e.assert("(not " + c + ")")
		return false
	}
	panic(abortPath{"infeasible"})
}

func sext(u uint64, w int, signed bool) int64 {
	if signed && w < 64 && u>>(uint(w)-1) == 1 {
		return int64(u) - (1 << uint(w))
	}
	return int64(u)
}

// concretise forks over every feasible value of x (solver-enumerated).
func (e *explorer) concretise(x symInt) int64 {
	if e.z == nil {
		panic(unsupported("symbolic value outside exploration"))
	}
	w := width(x.k)
	eq := func(v int64) string { return "(= " + x.t + " " + bvc(uint64(v), w) + ")" }
	pos := len(e.trail)
	var excluded []int64
	if pos < len(e.prefix) {
		d := e.prefix[pos]
		if !(pos == len(e.prefix)-1 && d.X != nil) {
			e.trail = append(e.trail, Decision{V: d.V, C: true})
			e.assert(eq(d.V))
			return d.V
		}
		excluded = d.X
	}
	e.res.SymDecisions++
	e.z.send("(push)")
	for _, v := range excluded {
		e.z.send("(assert (not " + eq(v) + "))")
	}
	r := e.z.check()
	if r != "sat" {
		e.z.send("(pop)")
		if r == "unknown" {
			panic(unsupported("solver unknown while concretising"))
		}
		panic(abortPath{"exhausted"})
	}
	u := e.z.getValue(x.t)
	e.z.send("(pop)")
	v := sext(u, w, isSigned(x.k))
	ex2 := append(append([]int64{}, excluded...), v)
	if len(ex2) > 4096 {
		panic(unsupported("concretisation of a value with more than 4096 feasible values"))
	}
	e.z.send("(push)")
	for _, w := range ex2 {
		e.z.send("(assert (not " + eq(w) + "))")
	}
	more := e.z.check() != "unsat"
	e.z.send("(pop)")
	if more {
		alt := append(append([]Decision{}, e.trail...), Decision{X: ex2, C: true})
		e.push(alt)
	}
	e.trail = append(e.trail, Decision{V: v, C: true})
	e.assert(eq(v))
	return v
}

// model returns the values of all declared inputs under the current
// assertions (after a sat check), or nil.
func (e *explorer) model(extra string) []SymVar {
	e.z.send("(push)")
	if extra != "" {
		e.z.send("(assert " + extra + ")")
	}
	var out []SymVar
	if e.z.check() == "sat" {
		// prefer the all-clear environment: greedily set one-bit inputs
		// (fault/outcome flags) to 0 where that keeps the query satisfiable,
		// so counterexamples are small and canonical.
		nbits := 0
		for _, v := range e.vars {
			if v.Width == 1 {
				nbits++
			}
		}
		if nbits > 0 && nbits <= 64 {
			for _, v := range e.vars {
				if v.Width != 1 {
					continue
				}
				c := "(= " + v.term + " #b0)"
				e.z.send("(push)")
				e.z.send("(assert " + c + ")")
				if e.z.check() == "sat" {
					e.z.send("(pop)")
					e.z.send("(assert " + c + ")")
				} else {
					e.z.send("(pop)")
				}
			}
			e.z.check()
		}
		for _, v := range e.vars {
			c := *v
			c.Value = e.z.getValue(v.term)
			out = append(out, c)
		}
		if out == nil {
			out = []SymVar{}
		}
	}
	e.z.send("(pop)")
	return out
}

func (e *explorer) trailString() string {
	var b strings.Builder
	for _, d := range e.trail {
		if d.C {
			fmt.Fprintf(&b, "c%d ", d.V)
		} else {
			fmt.Fprintf(&b, "%d", d.V)
		}
	}
	return b.String()
}

func (e *explorer) violation(kind, msg string, cond string) {
	m := e.model(cond)
	if m == nil {
		return
	}
	e.res.Violations = append(e.res.Violations, Violation{Kind: kind, Msg: msg, Model: m, Trail: e.trailString()})
}
