package patch

// Goes in: <repo>/patch/finding1_test.go  (package patch)
//
// C10: an import guard must hold when the file imports the path "in the
// stated form". goast.FindImportSpec returns only the FIRST import spec with
// a given path, so when a file imports the same path twice (legal Go:
// `import ("fmt"; f "fmt")`) only the first spec is ever compared against the
// patch import; the guard fails although the file does import the path in the
// stated form, and the change is silently not applied.

import (
	"strings"
	"testing"
)

func applyC10(t *testing.T, patchSrc, goSrc string) string {
	t.Helper()
	pf, err := Parse("c10.patch", []byte(patchSrc))
	if err != nil {
		t.Fatalf("parse patch: %v", err)
	}
	out, err := pf.Apply("a.go", []byte(goSrc))
	if err != nil {
		t.Fatalf("apply: %v", err)
	}
	return string(out)
}

func TestFinding1_SamePathImportedTwice(t *testing.T) {
	t.Run("named guard, named import listed second", func(t *testing.T) {
		out := applyC10(t, `@@
@@
 import f "fmt"

-f.Println("x")
+f.Println("y")
`, `package a

import (
	"fmt"
	f "fmt"
)

func x() {
	fmt.Println("z")
	f.Println("x")
}
`)
		if !strings.Contains(out, `f.Println("y")`) {
			t.Errorf("file imports f \"fmt\" but the change was not applied:\n%s", out)
		}
	})

	t.Run("unnamed guard, unnamed import listed second", func(t *testing.T) {
		out := applyC10(t, `@@
@@
 import "fmt"

-fmt.Println("x")
+fmt.Println("y")
`, `package a

import (
	f "fmt"
	"fmt"
)

func x() {
	fmt.Println("x")
	f.Println("z")
}
`)
		if !strings.Contains(out, `fmt.Println("y")`) {
			t.Errorf("file imports \"fmt\" unnamed but the change was not applied:\n%s", out)
		}
	})

	t.Run("metavariable name binds only to the first spec", func(t *testing.T) {
		out := applyC10(t, `@@
var m identifier
@@
 import m "example.com/lib"

-m.Before()
+m.After()
`, `package a

import (
	a "example.com/lib"
	b "example.com/lib"
)

func x() {
	b.Before()
	a.Other()
}
`)
		if !strings.Contains(out, `b.After()`) {
			t.Errorf("file imports the path as b and uses b.Before(), but the change was not applied:\n%s", out)
		}
	})

	t.Run("second import added by an earlier change of the same patch", func(t *testing.T) {
		out := applyC10(t, `@@
@@
+import "example.com/lib"

-old()
+lib.New()

@@
@@
 import "example.com/lib"

-before()
+after()
`, `package p

import zz "example.com/lib"

func f() {
	old()
	before()
	zz.X()
}
`)
		if !strings.Contains(out, `lib.New()`) {
			t.Fatalf("first change not applied:\n%s", out)
		}
		if !strings.Contains(out, `after()`) {
			t.Errorf("after the first change the file imports \"example.com/lib\" unnamed, but the second change was not applied:\n%s", out)
		}
	})
}
