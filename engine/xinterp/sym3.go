package interp

import (
	"go/types"
	"strings"
)

var symExternals = map[string]externalFn{}

func anySym(args []value) bool {
	for _, a := range args {
		if isSym(a) {
			return true
		}
	}
	return false
}

func init() {
	// Summary of unicode.IsSpace for Latin-1 (validated against the table).
	symExternals["unicode.IsSpace"] = func(fr *frame, args []value) value {
		r := args[0].(symInt)
		var alts []string
		for _, c := range []uint64{9, 10, 11, 12, 13, 32, 0x85, 0xA0} {
			alts = append(alts, "(= "+r.t+" "+bvc(c, width(r.k))+")")
		}
		if !X.decide("(bvule " + resize(symInt{r.t, types.Uint32}, types.Uint32).t + " " + bvc(0xFF, 32) + ")") {
			panic(unsupported("unicode.IsSpace beyond Latin-1"))
		}
		return symBool{"(or " + strings.Join(alts, " ") + ")"}
	}
}
