package main

// C15 finding 1: de-duplication is by path *string*, so one file that is
// reachable under two spellings (an ancestor directory is a symlink, e.g. the
// shell's $PWD goes through a symlink while another argument is the physical
// path) is processed twice in one run.
//
// Goes in the repository root (package main).

import (
	"bytes"
	"os"
	"path/filepath"
	"strings"
	"testing"
)

const c15IncPatch = "@@\nvar x expression\n@@\n-mark(x)\n+mark(x + 1)\n"
const c15Src = "package p\n\nvar _ = mark(0)\n"

func c15Write(t *testing.T, path, body string) {
	t.Helper()
	if err := os.MkdirAll(filepath.Dir(path), 0o755); err != nil {
		t.Fatal(err)
	}
	if err := os.WriteFile(path, []byte(body), 0o644); err != nil {
		t.Fatal(err)
	}
}

func c15Run(t *testing.T, cwd string, args ...string) (stdout string, err error) {
	t.Helper()
	var out, errb bytes.Buffer
	cmd := mainCmd{
		Stdin:  strings.NewReader(c15IncPatch),
		Stdout: &out,
		Stderr: &errb,
		Getwd:  func() (string, error) { return cwd, nil },
	}
	err = cmd.Run(append([]string{"-v"}, args...))
	return out.String(), err
}

func TestC15Finding1_SameFileTwiceThroughSymlinkedAncestor(t *testing.T) {
	root, err := filepath.EvalSymlinks(t.TempDir())
	if err != nil {
		t.Fatal(err)
	}
	file := filepath.Join(root, "real", "sub", "b.go")
	c15Write(t, file, c15Src)
	if err := os.Symlink("real", filepath.Join(root, "link")); err != nil {
		t.Skip("symlinks unavailable:", err)
	}

	// Neither argument is itself a symlink: link/sub is a real directory and
	// real/sub/b.go a real file.  They overlap: both contain the one b.go.
	out, err := c15Run(t, root, "link/sub", "real/sub/b.go")
	if err != nil {
		t.Fatal(err)
	}
	got, _ := os.ReadFile(file)
	if n := strings.Count(out, ": patched"); n != 1 {
		t.Errorf("the single file b.go was processed %d times:\n%s", n, out)
	}
	if want := "package p\n\nvar _ = mark(0 + 1)\n"; string(got) != want {
		t.Errorf("patch applied more than once to the same file\n got: %q\nwant: %q", got, want)
	}
}

// Same defect, the everyday shape: the working directory was entered through
// a symlink (os.Getwd returns $PWD verbatim), one argument is relative and one
// is the physical absolute path of the same file.
func TestC15Finding1_RelativeAndPhysicalAbsolute(t *testing.T) {
	root, err := filepath.EvalSymlinks(t.TempDir())
	if err != nil {
		t.Fatal(err)
	}
	file := filepath.Join(root, "real", "proj", "a.go")
	c15Write(t, file, c15Src)
	if err := os.Symlink("real", filepath.Join(root, "link")); err != nil {
		t.Skip("symlinks unavailable:", err)
	}

	out, err := c15Run(t, filepath.Join(root, "link", "proj"), "a.go", file)
	if err != nil {
		t.Fatal(err)
	}
	got, _ := os.ReadFile(file)
	if n := strings.Count(out, ": patched"); n != 1 {
		t.Errorf("a.go was processed %d times:\n%s", n, out)
	}
	if want := "package p\n\nvar _ = mark(0 + 1)\n"; string(got) != want {
		t.Errorf("got %q, want %q", got, want)
	}
}
