package main

import (
	"bytes"
	"os"
	"path/filepath"
	"strings"
	"testing"
)

// C14: "The result for a file is ... the same whether the file is processed
// alone or together with any other files, in any argument order".
//
// findFiles de-duplicates targets by absolute path but keeps the spelling of
// whichever argument came last, so with --diff / --print-only the text
// reported for one and the same file (diff header, patch-comment prefix on
// stderr) changes when the same two arguments are given in the other order.
func TestFinding2_ArgumentOrderChangesDiffOfSameFile(t *testing.T) {
	dir := t.TempDir()
	write := func(name, s string) string {
		p := filepath.Join(dir, name)
		if err := os.WriteFile(p, []byte(s), 0o644); err != nil {
			t.Fatal(err)
		}
		return p
	}
	patchPath := write("p.patch", "# note\n@@\n@@\n-foo()\n+bar()\n")
	abs := write("a.go", "package a\n\nfunc f() { foo() }\n")

	run := func(args ...string) (string, string) {
		var stdout, stderr bytes.Buffer
		cmd := mainCmd{
			Stdin:  strings.NewReader(""),
			Stdout: &stdout,
			Stderr: &stderr,
			Getwd:  func() (string, error) { return dir, nil },
		}
		if err := cmd.Run(append([]string{"-p", patchPath, "-d"}, args...)); err != nil {
			t.Fatal(err)
		}
		return stdout.String(), stderr.String()
	}

	out1, err1 := run("a.go", abs)
	out2, err2 := run(abs, "a.go")
	if out1 != out2 {
		t.Errorf("--diff output for the same file depends on argument order:\n--- a.go <abs>:\n%s\n--- <abs> a.go:\n%s", out1, out2)
	}
	if err1 != err2 {
		t.Errorf("stderr for the same file depends on argument order:\n--- a.go <abs>:\n%s\n--- <abs> a.go:\n%s", err1, err2)
	}
}
