package patch

import (
	"strings"
	"testing"
)

// C19 finding 1: a /*line ...*/ comment on the last line of a metavariable
// section is honoured by go/scanner and redirects the position of every
// following token on that line, so the diagnostic names another file, no file
// at all, or a wrong line of the patch file.
func TestFinding1LineDirectiveInMeta(t *testing.T) {
	tests := []struct {
		desc string
		src  string
		want string // position prefix the diagnostic must contain
	}{
		{
			desc: "unknown type, other file name",
			src: "# comment\n" +
				"@@\n" +
				"var x expression\n" +
				"@@\n" +
				"-foo(x)\n" +
				"+bar(x)\n" +
				"\n" +
				"@ second @\n" +
				"# inside meta\n" +
				"var y /*line other.go:100:1*/ bogus\n" +
				"@@\n" +
				"-bar(y)\n" +
				"+baz(y)\n",
			want: "p.patch:10:31: ",
		},
		{
			desc: "unknown type, no file name at all",
			src: "@@\n" +
				"var x /*line :100*/ bogus\n" +
				"@@\n" +
				"-foo(x)\n" +
				"+bar(x)\n",
			want: "p.patch:2:21: ",
		},
		{
			desc: "duplicate, wrong line of the patch file",
			src: "@@\n" +
				"var x identifier\n" +
				"var y /*line :1:1*/, x expression\n" +
				"@@\n" +
				"-foo(x)\n" +
				"+bar(x)\n",
			want: "p.patch:3:22: ",
		},
		{
			desc: "malformed declaration, no file name at all",
			src: "@@\n" +
				"var a identifier\n" +
				"var b /*line :1*/ identifier extra\n" +
				"@@\n" +
				"-a\n" +
				"+b\n",
			want: "p.patch:3:30: ",
		},
	}

	for _, tt := range tests {
		t.Run(tt.desc, func(t *testing.T) {
			_, err := Parse("p.patch", []byte(tt.src))
			if err == nil {
				t.Fatal("patch must be rejected")
			}
			if !strings.Contains(err.Error(), "p.patch:") {
				t.Errorf("diagnostic does not name the patch file: %v", err)
			}
			if !strings.Contains(err.Error(), tt.want) {
				t.Errorf("diagnostic does not point at %q: %v", tt.want, err)
			}
		})
	}
}
