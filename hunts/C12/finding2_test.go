package main

import (
	"bytes"
	"fmt"
	"os"
	"path/filepath"
	"strings"
	"testing"
)

// C12: "the result of applying the unified diff printed by --diff to the
// original file [is] identical" to "the bytes written in place by the default
// mode". The original does not end in a newline, the produced file does
// (go/printer always ends the file with one), but pkg/diff.Text compares
// newline-less lines and never prints "\ No newline at end of file"
// (a TODO in pkg/diff/write/unified.go), so the diff does not carry the
// added newline.
func TestFinding2DiffIgnoresMissingFinalNewline(t *testing.T) {
	const patch = "@@\n@@\n-foo()\n+bar()\n"

	tests := []struct{ name, src string }{
		{
			// The last line is outside every hunk: the diff applies
			// cleanly, and the result silently lacks the final newline.
			name: "last line outside the hunk",
			src:  "package a\n\nfunc f() {\n\tfoo()\n}\n\nfunc g() {\n\tbaz()\n}\n\nfunc h() {\n\tbaz()\n}",
		},
		{
			// The last line is a context line of the hunk: the diff claims
			// that the original has "}\n" there. GNU patch rejects the hunk.
			name: "last line is context of the hunk",
			src:  "package a\n\nfunc f() {\n\tfoo()\n}",
		},
	}
	for _, tt := range tests {
		t.Run(tt.name, func(t *testing.T) {
			written, printed, udiff, err := f2Modes(t, patch, tt.src)
			if err != nil {
				t.Fatalf("--diff: %v", err)
			}
			if printed != written {
				t.Errorf("--print-only and default mode differ:\n%q\n%q", printed, written)
			}
			applied, err := f2ApplyUnified([]byte(tt.src), udiff)
			if err != nil {
				t.Fatalf("the diff printed by --diff does not apply to the original file: %v\ndiff:\n%s", err, udiff)
			}
			if string(applied) != written {
				t.Errorf("applying the diff printed by --diff gives\n%q\nbut the default mode wrote\n%q\ndiff:\n%s", applied, written, udiff)
			}
		})
	}
}

// f2Run runs the gopatch command line in dir.
func f2Run(t *testing.T, dir string, args ...string) (stdout, stderr string, err error) {
	t.Helper()
	var so, se bytes.Buffer
	cmd := &mainCmd{
		Stdin:  strings.NewReader(""),
		Stdout: &so,
		Stderr: &se,
		Getwd:  func() (string, error) { return dir, nil },
	}
	err = cmd.Run(args)
	return so.String(), se.String(), err
}

// f2Modes runs the same patch on the same single file a.go in the default
// (write in place), --print-only and --diff modes, each in its own directory.
func f2Modes(t *testing.T, patch, src string, extra ...string) (written, printed, udiff string, diffErr error) {
	t.Helper()
	mk := func() string {
		dir := t.TempDir()
		if err := os.WriteFile(filepath.Join(dir, "p.patch"), []byte(patch), 0o644); err != nil {
			t.Fatal(err)
		}
		if err := os.WriteFile(filepath.Join(dir, "a.go"), []byte(src), 0o644); err != nil {
			t.Fatal(err)
		}
		return dir
	}
	args := func(dir string, mode ...string) []string {
		a := append([]string{"-p", filepath.Join(dir, "p.patch")}, mode...)
		a = append(a, extra...)
		return append(a, "a.go")
	}

	d1 := mk()
	if _, _, err := f2Run(t, d1, args(d1)...); err != nil {
		t.Fatalf("default mode: %v", err)
	}
	b, err := os.ReadFile(filepath.Join(d1, "a.go"))
	if err != nil {
		t.Fatal(err)
	}
	written = string(b)

	d2 := mk()
	printed, _, err = f2Run(t, d2, args(d2, "--print-only")...)
	if err != nil {
		t.Fatalf("--print-only: %v", err)
	}

	d3 := mk()
	udiff, _, diffErr = f2Run(t, d3, args(d3, "--diff")...)
	for _, d := range []string{d2, d3} {
		if b, _ := os.ReadFile(filepath.Join(d, "a.go")); string(b) != src {
			t.Errorf("a dry run modified a.go")
		}
	}
	return written, printed, udiff, diffErr
}

// f2ApplyUnified is a small, strict unified-diff applier: hunks must come in
// ascending, non-overlapping order and every context/removed line must be
// byte-identical (including its line terminator) to the line of the original
// it stands for. "\ No newline at end of file" markers are honoured.
func f2ApplyUnified(orig []byte, udiff string) ([]byte, error) {
	var lines []string // lines of orig, terminators kept
	for rest := string(orig); len(rest) > 0; {
		i := strings.IndexByte(rest, '\n')
		if i < 0 {
			lines = append(lines, rest)
			break
		}
		lines = append(lines, rest[:i+1])
		rest = rest[i+1:]
	}

	dl := strings.Split(udiff, "\n")
	if n := len(dl); n > 0 && dl[n-1] == "" {
		dl = dl[:n-1]
	}
	var out strings.Builder
	pos := 0 // next line of orig not yet copied
	i := 0
	for i < len(dl) && (strings.HasPrefix(dl[i], "--- ") || strings.HasPrefix(dl[i], "+++ ")) {
		i++
	}
	for i < len(dl) {
		var os_, ol, ns, nl int
		if _, err := fmt.Sscanf(dl[i], "@@ -%d,%d +%d,%d @@", &os_, &ol, &ns, &nl); err != nil {
			return nil, fmt.Errorf("line %d of diff: expected hunk header, got %q", i+1, dl[i])
		}
		i++
		start := os_ - 1
		if ol == 0 {
			start = os_
		}
		if start < pos {
			return nil, fmt.Errorf("hunk at -%d,%d overlaps or precedes the previous hunk (misordered hunks)", os_, ol)
		}
		if start > len(lines) {
			return nil, fmt.Errorf("hunk at -%d,%d starts past the end of the file", os_, ol)
		}
		for ; pos < start; pos++ {
			out.WriteString(lines[pos])
		}
		for ol > 0 || nl > 0 {
			if i >= len(dl) || dl[i] == "" {
				return nil, fmt.Errorf("diff ends inside a hunk")
			}
			kind, text := dl[i][0], dl[i][1:]+"\n"
			i++
			if i < len(dl) && strings.HasPrefix(dl[i], "\\") {
				text = strings.TrimSuffix(text, "\n")
				i++
			}
			if kind == ' ' || kind == '-' {
				if pos >= len(lines) || lines[pos] != text {
					got := "<EOF>"
					if pos < len(lines) {
						got = lines[pos]
					}
					return nil, fmt.Errorf("line %d of the original is %q but the diff says %q", pos+1, got, text)
				}
				pos++
				ol--
			}
			if kind == ' ' || kind == '+' {
				out.WriteString(text)
				nl--
			}
			if kind != ' ' && kind != '-' && kind != '+' {
				return nil, fmt.Errorf("bad hunk line %q", dl[i-1])
			}
		}
	}
	for ; pos < len(lines); pos++ {
		out.WriteString(lines[pos])
	}
	return []byte(out.String()), nil
}
