#!/usr/bin/env python3
"""Regenerates /verif/MANIFEST.json from tools/claims.json (one record per property)."""
import json, os
root = os.path.dirname(os.path.dirname(os.path.abspath(__file__)))
claims = json.load(open(os.path.join(root, "tools/claims.json")))
props = [json.loads(l) for l in open(os.path.join(root, "properties.jsonl"))]
checks, na = [], []
for p in props:
    c = claims.get(p["id"])
    if c and c.get("claimed"):
        checks.append({
            "property_id": p["id"],
            "quick_cmd": "./check %s quick" % p["id"],
            "thorough_cmd": "./check %s thorough" % p["id"],
            "evidence_file": "/verif/evidence/%s.json" % p["id"],
            "replay_cmd_template": "./check %s --replay {path}" % p["id"],
            "engine": "symgo",
            "level_claimed": {
                "category": "model_checking",
                "text": c["text"],
                "design_ref": c.get("design_ref", "DESIGN.md §5 " + p["id"]),
            },
            "level_note": c["note"],
            "technique": c.get("technique", "bounded symbolic execution of the go/ssa IR of /repo's working tree (own executor symgo) with SMT (z3) deciding path feasibility and every assertion; counterexample models replayed natively"),
        })
    else:
        na.append({"property_id": p["id"], "reason": (c or {}).get("reason", "no solver-based check built yet for this property (work in progress; see DESIGN.md §5)")})
m = {
    "version": 1,
    "setup_cmd": "./check --setup",
    "hooks": {
        "guard": "verif",
        "enable": "no source hooks: harnesses are injected at load time through go/packages and `go test -overlay` overlays (virtual files /repo/**/zz_verif_*.go and the virtual package internal/zzverif/nd); nothing is written into /repo",
        "baseline_off_cmd": "cd /repo && go test -vet=off -count=1 -timeout 25m ./...",
        "source_commits": [],
        "add_only": True,
    },
    "engines": [{
        "name": "symgo",
        "path": "/verif/engine",
        "serves_properties": [c["property_id"] for c in checks],
        "kind_free_text": "symbolic executor for Go SSA (adapted from x/tools go/ssa/interp): bit-vector scalars and byte-vector strings as SMT-LIB2 terms, concrete heap shape, stateless DFS by re-execution with decision prefixes, 16 worker processes each with an incremental z3; harnesses are in-package Go functions using package nd (nondet inputs, Assume, Assert, Reach) that also compile natively for counterexample replay",
    }],
    "checks": checks,
    "not_applicable": na,
    "notes": "Exit codes of every check: 0 held (KNOWN-FINDING lines possible), 1 VIOLATION (natively replayed, not listed in known_findings.jsonl), 2 infrastructure/inconclusive/vacuous/engine-disagreement (never with a VIOLATION line). Known findings: /verif/known_findings.jsonl.",
}
json.dump(m, open(os.path.join(root, "MANIFEST.json"), "w"), indent=1)
print("checks:", [c["property_id"] for c in checks], "na:", len(na))
