package diff

import (
	"github.com/uber-go/gopatch/internal/zzverif/nd"
)

// VerifC17Diff: the real diff.Difference on two lists of lengths nx, ny <= N
// whose comparison function is an arbitrary (solver-chosen) matrix of
// Result{NumSame, NumDiff} values in 0..3.
//
// astdiff attributes a change to the source region of list element i exactly
// when the edit script says Modified or UniqueX at i; an Identity step never
// produces a changed region. The obligations are what astdiff relies on:
//
//   - the script consumes exactly nx and ny elements, and f is only called
//     inside the lists;
//   - an Identity step sits on an Equal cell, a Modified step on a Similar one;
//   - GROUND TRUTH: the harness fixes the correspondence pi between the lists
//     (pi(i) = the element of Y that element i of X became): elements are
//     rewritten in place and at most one element is inserted or deleted -
//     what one gopatch change can do to a file's declaration list (rewrite
//     declarations; add or drop an import declaration) - and assumes that
//     elements that do not correspond are not Equal (siblings are pairwise
//     distinct code). Then every element whose counterpart is Equal must be reported
//     Identity, paired with its counterpart - an untouched declaration is
//     never reported changed, whatever happened to its neighbours.
func VerifC17Diff() {
	N := nd.Param("N", 3)
	nx := nd.Choose("nx", N+1)
	ny := nd.Choose("ny", N+1)
	same := make([][]int, nx)
	diff := make([][]int, nx)
	for i := range same {
		same[i] = make([]int, ny)
		diff[i] = make([]int, ny)
		for j := range same[i] {
			same[i][j] = nd.Int("same")
			diff[i][j] = nd.Int("diff")
			nd.Assume(nd.And(nd.And(same[i][j] >= 0, same[i][j] <= 3), nd.And(diff[i][j] >= 0, diff[i][j] <= 3)))
		}
	}
	// ground truth: pi[i] = index in Y or -1 (deleted). What a gopatch change
	// does to a declaration list: rewrite elements in place, and add or drop
	// at most one element (an import declaration).
	pi := make([]int, nx)
	class := nd.Param("CLASS", 7)
	maxAt := nd.Param("MAXAT", 99)
	switch {
	case ny == nx && class&1 == 0, ny == nx+1 && class&2 == 0, nx == ny+1 && class&4 == 0:
		nd.Assume(false)
	}
	switch {
	case ny == nx:
		for i := range pi {
			pi[i] = i
		}
	case ny == nx+1:
		at := nd.Choose("insertedAt", ny)
		nd.Assume(at <= maxAt)
		for i := range pi {
			pi[i] = i
			if i >= at {
				pi[i] = i + 1
			}
		}
	case nx == ny+1:
		at := nd.Choose("deletedAt", nx)
		nd.Assume(at <= maxAt)
		for i := range pi {
			switch {
			case i < at:
				pi[i] = i
			case i == at:
				pi[i] = -1
			default:
				pi[i] = i - 1
			}
		}
	default:
		nd.Assume(false)
	}
	for i := 0; i < nx; i++ {
		for j := 0; j < ny; j++ {
			if pi[i] != j {
				nd.Assume(diff[i][j] != 0) // non-corresponding elements are different code
			}
		}
	}
	calls := 0
	f := func(ix, iy int) Result {
		calls++
		nd.Assert(ix >= 0 && ix < nx && iy >= 0 && iy < ny, "Difference called f outside the lists")
		if ix < 0 || ix >= nx || iy < 0 || iy >= ny {
			return Result{NumDiff: 2}
		}
		return Result{NumSame: same[ix][iy], NumDiff: diff[ix][iy]}
	}
	es := Difference(nx, ny, f)
	i, j := 0, 0
	ok := true
	paired := make([]int, nx) // what the script paired element i with (Identity only)
	for k := range paired {
		paired[k] = -1
	}
	for _, e := range es {
		switch e {
		case Identity:
			if i < nx && j < ny {
				ok = nd.And(ok, diff[i][j] == 0)
				paired[i] = j
			}
			i++
			j++
		case Modified:
			if i < nx && j < ny {
				ok = nd.And(ok, nd.And(diff[i][j] != 0, same[i][j]+1 >= diff[i][j]))
			}
			i++
			j++
		case UniqueX:
			i++
		case UniqueY:
			j++
		default:
			nd.Assert(false, "invalid edit type")
		}
	}
	nd.Assert(i == nx && j == ny, "edit script does not consume both lists exactly")
	nd.Assert(ok, "Identity step on unequal elements, or Modified step on dissimilar/equal ones")
	for k := 0; k < nx; k++ {
		if pi[k] >= 0 {
			// untouched element: Equal to its counterpart
			nd.Assert(nd.Implies(diff[k][pi[k]] == 0, paired[k] == pi[k]), "an untouched list element was not reported Identity (its region would be marked changed)")
		}
	}
	nd.Assert(calls <= 4*(nx+ny)*(nx+ny)+4*(nx+ny)+8, "comparison budget exceeded")
	nd.Reach("done")
}
