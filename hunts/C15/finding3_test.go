package main

// C15 finding 3: the name-based pruning is also applied to the ROOT of each
// walk, using the base name of whatever absolute path the argument resolves
// to.  So "." / "./..." processes nothing (exit 0, no message) when the
// working directory happens to be called testdata, vendor, _x or .x, and
// "gopatch testdata" does nothing while "gopatch testdata/x" and
// "gopatch testdata/t.go" work.
//
// Goes in the repository root (package main). Uses helpers of finding1_test.go.

import (
	"os"
	"path/filepath"
	"testing"
)

func TestC15Finding3_RootWithExcludedName(t *testing.T) {
	want := "package p\n\nvar _ = mark(0 + 1)\n"
	for _, name := range []string{"testdata", "vendor", "_work", ".work"} {
		root := t.TempDir()
		dir := filepath.Join(root, name)
		file := filepath.Join(dir, "a.go")

		// (a) the user is inside the directory and says "here".
		c15Write(t, file, c15Src)
		out, err := c15Run(t, dir, "./...")
		if err != nil {
			t.Fatal(err)
		}
		if got, _ := os.ReadFile(file); string(got) != want {
			t.Errorf("cwd=%s, gopatch ./... : a.go not processed (log %q)", name, out)
		}

		// (b) the user names the directory itself.
		c15Write(t, file, c15Src)
		out, err = c15Run(t, root, name)
		if err != nil {
			t.Fatal(err)
		}
		if got, _ := os.ReadFile(file); string(got) != want {
			// Same mechanism; arguably allowed by the literal statement
			// ("reached through a directory whose name is ..."), so only logged.
			t.Logf("gopatch %s : %s/a.go not processed (log %q)", name, name, out)
		}
	}
}
