package main

import (
	"bytes"
	"os"
	"path/filepath"
	"strings"
	"testing"
)

// C12: "all output modes agree". A source line longer than 64 KiB (a long
// string literal, an embedded blob) is fine for the default mode and for
// --print-only, but --diff fails with "bufio.Scanner: token too long" and
// prints no diff for the file: pkg/diff.Text reads lines with a bufio.Scanner
// of default buffer size.
func TestFinding4DiffFailsOnLongLine(t *testing.T) {
	const patch = "@@\n@@\n-foo()\n+bar()\n"
	src := "package a\n\nfunc f() {\n\tfoo()\n}\n\nvar blob = \"" + strings.Repeat("x", 70000) + "\"\n"
	want := strings.Replace(src, "foo()", "bar()", 1)

	run := func(mode ...string) (string, string, string, error) {
		dir := t.TempDir()
		if err := os.WriteFile(filepath.Join(dir, "p.patch"), []byte(patch), 0o644); err != nil {
			t.Fatal(err)
		}
		if err := os.WriteFile(filepath.Join(dir, "a.go"), []byte(src), 0o644); err != nil {
			t.Fatal(err)
		}
		var so, se bytes.Buffer
		cmd := &mainCmd{
			Stdin:  strings.NewReader(""),
			Stdout: &so,
			Stderr: &se,
			Getwd:  func() (string, error) { return dir, nil },
		}
		err := cmd.Run(append(append([]string{"-p", filepath.Join(dir, "p.patch")}, mode...), "a.go"))
		b, _ := os.ReadFile(filepath.Join(dir, "a.go"))
		return so.String(), se.String(), string(b), err
	}

	_, _, written, err := run()
	if err != nil || written != want {
		t.Fatalf("default mode: err=%v, file changed as expected: %v", err, written == want)
	}
	printed, _, _, err := run("--print-only")
	if err != nil || printed != want {
		t.Fatalf("--print-only: err=%v, output as expected: %v", err, printed == want)
	}

	udiff, _, _, err := run("--diff")
	if err != nil {
		t.Errorf("--diff fails on input that the other modes handle: %v", err)
	}
	if !strings.Contains(udiff, "+\tbar()") {
		t.Errorf("--diff printed no diff for the change; stdout=%q", udiff)
	}
}
