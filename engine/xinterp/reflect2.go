package interp

// Spike: l-value capable reflect emulation (throw-away).

import (
	"fmt"
	"go/token"
	"go/types"
	"reflect"

	"golang.org/x/tools/go/ssa"
)

type rval struct {
	t    types.Type
	v    value
	addr *value
}

func unpackRV(x value) (rval, bool) {
	s := x.(structure)
	rt, ok := s[0].(rtype)
	if !ok {
		return rval{}, false
	}
	var a *value
	if len(s) > 2 {
		a, _ = s[2].(*value)
	}
	return rval{rt.t, s[1], a}, true
}

func mustRV(x value, op string) rval {
	r, ok := unpackRV(x)
	if !ok {
		panic(targetPanic{v: iface{t: types.Typ[types.String], v: "reflect: call of " + op + " on zero Value"}})
	}
	return r
}

func packRV(t types.Type, v value, addr *value) value {
	return structure{rtype{t}, v, addr}
}

func invalidRV() value { return structure{iface{}, iface{}, (*value)(nil)} }

func (r rval) get() value {
	if r.addr != nil {
		return load(r.t, r.addr)
	}
	return r.v
}

func tpanic(format string, args ...any) {
	panic(targetPanic{v: iface{t: types.Typ[types.String], v: fmt.Sprintf(format, args...)}})
}

func isIface(t types.Type) bool { _, ok := t.Underlying().(*types.Interface); return ok }

func rtypeOf(x value) types.Type {
	return x.(iface).v.(rtype).t
}

func init() {
	E := func(name string, f externalFn) { externals[name] = f }

	E("reflect.ValueOf", func(fr *frame, args []value) value {
		itf := args[0].(iface)
		if itf.t == nil {
			return invalidRV()
		}
		return packRV(itf.t, itf.v, nil)
	})
	E("reflect.Zero", func(fr *frame, args []value) value {
		t := rtypeOf(args[0])
		return packRV(t, zero(t), nil)
	})
	E("reflect.New", func(fr *frame, args []value) value {
		t := rtypeOf(args[0])
		cell := zero(t)
		return packRV(types.NewPointer(t), &cell, nil)
	})
	E("reflect.MakeSlice", func(fr *frame, args []value) value {
		t := rtypeOf(args[0])
		n, c := args[1].(int), args[2].(int)
		et := t.Underlying().(*types.Slice).Elem()
		s := make([]value, n, c)
		for i := range s {
			s[i] = zero(et)
		}
		return packRV(t, s, nil)
	})
	E("reflect.Indirect", func(fr *frame, args []value) value {
		r := mustRV(args[0], "Indirect")
		if _, ok := r.t.Underlying().(*types.Pointer); !ok {
			return args[0]
		}
		return externals["(reflect.Value).Elem"](fr, args)
	})
	ptrTo := func(fr *frame, args []value) value {
		return makeReflectType(rtype{types.NewPointer(rtypeOf(args[0]))})
	}
	E("reflect.PtrTo", ptrTo)
	E("reflect.PointerTo", ptrTo)

	E("(reflect.Value).IsValid", func(fr *frame, args []value) value {
		_, ok := unpackRV(args[0])
		return ok
	})
	E("(reflect.Value).Kind", func(fr *frame, args []value) value {
		r, ok := unpackRV(args[0])
		if !ok {
			return uint(reflect.Invalid)
		}
		return uint(reflectKind(r.t))
	})
	E("(reflect.Value).Type", func(fr *frame, args []value) value {
		r := mustRV(args[0], "Type")
		return makeReflectType(rtype{r.t})
	})
	E("(reflect.Value).CanAddr", func(fr *frame, args []value) value {
		r := mustRV(args[0], "CanAddr")
		return r.addr != nil
	})
	E("(reflect.Value).Elem", func(fr *frame, args []value) value {
		r := mustRV(args[0], "Elem")
		switch x := r.get().(type) {
		case iface:
			if x.t == nil {
				return invalidRV()
			}
			return packRV(x.t, x.v, nil)
		case *value:
			if x == nil {
				return invalidRV()
			}
			return packRV(r.t.Underlying().(*types.Pointer).Elem(), nil, x)
		default:
			tpanic("reflect: call of reflect.Value.Elem on %v Value", r.t)
		}
		return nil
	})
	E("(reflect.Value).Field", func(fr *frame, args []value) value {
		r := mustRV(args[0], "Field")
		st, ok := r.t.Underlying().(*types.Struct)
		if !ok {
			tpanic("reflect: call of reflect.Value.Field on %v Value", r.t)
		}
		i := args[1].(int)
		if i < 0 || i >= st.NumFields() {
			tpanic("reflect: Field index out of range")
		}
		ft := st.Field(i).Type()
		if r.addr != nil {
			s := (*r.addr).(structure)
			return packRV(ft, nil, &s[i])
		}
		return packRV(ft, r.v.(structure)[i], nil)
	})
	E("(reflect.Value).NumField", func(fr *frame, args []value) value {
		r := mustRV(args[0], "NumField")
		return r.t.Underlying().(*types.Struct).NumFields()
	})
	E("(reflect.Value).FieldByName", func(fr *frame, args []value) value {
		r := mustRV(args[0], "FieldByName")
		st := r.t.Underlying().(*types.Struct)
		name := args[1].(string)
		for i := 0; i < st.NumFields(); i++ {
			if st.Field(i).Name() == name {
				return externals["(reflect.Value).Field"](fr, []value{args[0], i})
			}
		}
		return invalidRV()
	})
	E("(reflect.Value).Len", func(fr *frame, args []value) value {
		r := mustRV(args[0], "Len")
		switch v := r.get().(type) {
		case string:
			return len(v)
		case array:
			return len(v)
		case []value:
			return len(v)
		case *hashmap:
			return v.len()
		}
		tpanic("reflect: call of reflect.Value.Len on %v Value", r.t)
		return nil
	})
	E("(reflect.Value).Index", func(fr *frame, args []value) value {
		r := mustRV(args[0], "Index")
		i := args[1].(int)
		switch t := r.t.Underlying().(type) {
		case *types.Slice:
			s := r.get().([]value)
			if i < 0 || i >= len(s) {
				tpanic("reflect: slice index out of range")
			}
			return packRV(t.Elem(), nil, &s[i])
		case *types.Array:
			if r.addr != nil {
				a := (*r.addr).(array)
				return packRV(t.Elem(), nil, &a[i])
			}
			return packRV(t.Elem(), r.v.(array)[i], nil)
		}
		tpanic("reflect: call of reflect.Value.Index on %v Value", r.t)
		return nil
	})
	E("(reflect.Value).IsNil", func(fr *frame, args []value) value {
		r := mustRV(args[0], "IsNil")
		switch x := r.get().(type) {
		case *value:
			return x == nil
		case []value:
			return x == nil
		case iface:
			return x.t == nil
		case *hashmap:
			return x == nil
		case *closure:
			return x == nil
		case *ssa.Function:
			return x == nil
		}
		tpanic("reflect: call of reflect.Value.IsNil on %v Value", r.t)
		return nil
	})
	E("(reflect.Value).Interface", func(fr *frame, args []value) value {
		r := mustRV(args[0], "Interface")
		v := r.get()
		if isIface(r.t) {
			return v
		}
		return iface{r.t, v}
	})
	E("reflect.valueInterface", func(fr *frame, args []value) value {
		return externals["(reflect.Value).Interface"](fr, args[:1])
	})
	E("(reflect.Value).Set", func(fr *frame, args []value) value {
		r := mustRV(args[0], "Set")
		x := mustRV(args[1], "Set")
		if r.addr == nil {
			tpanic("reflect: reflect.Value.Set using unaddressable value")
		}
		if !types.AssignableTo(x.t, r.t) {
			tpanic("reflect.Set: value of type %v is not assignable to type %v", x.t, r.t)
		}
		v := x.get()
		if isIface(r.t) && !isIface(x.t) {
			v = iface{x.t, v}
		}
		checkFrozen(r.addr)
		store(r.t, r.addr, v)
		return nil
	})
	E("(reflect.Value).Addr", func(fr *frame, args []value) value {
		r := mustRV(args[0], "Addr")
		if r.addr == nil {
			tpanic("reflect.Value.Addr of unaddressable value")
		}
		return packRV(types.NewPointer(r.t), r.addr, nil)
	})
	E("(reflect.Value).Convert", func(fr *frame, args []value) value {
		r := mustRV(args[0], "Convert")
		t := rtypeOf(args[1])
		return packRV(t, r.get(), nil)
	})
	E("(reflect.Value).Int", func(fr *frame, args []value) value {
		r := mustRV(args[0], "Int")
		switch x := r.get().(type) {
		case int:
			return int64(x)
		case int8:
			return int64(x)
		case int16:
			return int64(x)
		case int32:
			return int64(x)
		case int64:
			return x
		}
		tpanic("reflect: call of reflect.Value.Int on %v Value", r.t)
		return nil
	})
	E("(reflect.Value).SetInt", func(fr *frame, args []value) value {
		r := mustRV(args[0], "SetInt")
		if r.addr == nil {
			tpanic("reflect: reflect.Value.SetInt using unaddressable value")
		}
		checkFrozen(r.addr)
		b, ok := r.t.Underlying().(*types.Basic)
		if !ok || b.Info()&types.IsInteger == 0 || b.Info()&types.IsUnsigned != 0 {
			tpanic("reflect: call of reflect.Value.SetInt on %v Value", r.t)
		}
		if sx, ok := args[1].(symInt); ok {
			*r.addr = resize(sx, b.Kind())
			return nil
		}
		x := args[1].(int64)
		switch b.Kind() {
		case types.Int:
			*r.addr = int(x)
		case types.Int8:
			*r.addr = int8(x)
		case types.Int16:
			*r.addr = int16(x)
		case types.Int32:
			*r.addr = int32(x)
		case types.Int64:
			*r.addr = x
		}
		return nil
	})
	E("(reflect.Value).String", func(fr *frame, args []value) value {
		r, ok := unpackRV(args[0])
		if !ok {
			return "<invalid Value>"
		}
		if s, ok := r.get().(string); ok {
			return s
		}
		return "<" + r.t.String() + " Value>"
	})

	// rtype methods.
	E("(reflect.rtype).Implements", func(fr *frame, args []value) value {
		t := args[0].(rtype).t
		u := rtypeOf(args[1]).Underlying().(*types.Interface)
		return types.Implements(t, u)
	})
	E("(reflect.rtype).AssignableTo", func(fr *frame, args []value) value {
		return types.AssignableTo(args[0].(rtype).t, rtypeOf(args[1]))
	})
	E("(reflect.rtype).Name", func(fr *frame, args []value) value {
		if n, ok := args[0].(rtype).t.(*types.Named); ok {
			return n.Obj().Name()
		}
		return ""
	})
	E("(reflect.rtype).PkgPath", func(fr *frame, args []value) value {
		if n, ok := args[0].(rtype).t.(*types.Named); ok && n.Obj().Pkg() != nil {
			return n.Obj().Pkg().Path()
		}
		return ""
	})
	E("(reflect.rtype).FieldByName", func(fr *frame, args []value) value {
		st := args[0].(rtype).t.Underlying().(*types.Struct)
		name := args[1].(string)
		for i := 0; i < st.NumFields(); i++ {
			if st.Field(i).Name() == name {
				return tuple{ext۰reflect۰rtype۰Field(fr, []value{args[0], i}), true}
			}
		}
		return tuple{ext۰reflect۰rtype۰Field(fr, []value{rtype{types.NewStruct([]*types.Var{types.NewField(token.NoPos, nil, "x", types.Typ[types.Int], false)}, nil)}, 0}), false}
	})
}

// Spike: called from initReflect to add the extra rtype methods and the
// third (addr) field of the fake reflect.Value struct.
func initReflect2(i *interpreter) {
	for _, m := range []string{"Implements", "AssignableTo", "Name", "FieldByName"} {
		i.rtypeMethods[m] = newMethod(i.reflectPackage, rtypeType, m)
	}
}

func init() {
	E := func(name string, f externalFn) { externals[name] = f }
	E("(reflect.Value).Bool", func(fr *frame, args []value) value {
		r := mustRV(args[0], "Bool")
		switch x := r.get().(type) {
		case bool, symBool:
			return x
		}
		tpanic("reflect: call of reflect.Value.Bool on %v Value", r.t)
		return nil
	})
	E("(reflect.Value).Uint", func(fr *frame, args []value) value {
		r := mustRV(args[0], "Uint")
		switch x := r.get().(type) {
		case uint:
			return uint64(x)
		case uint8:
			return uint64(x)
		case uint16:
			return uint64(x)
		case uint32:
			return uint64(x)
		case uint64:
			return x
		case uintptr:
			return uint64(x)
		case symInt:
			return resize(x, types.Uint64)
		}
		tpanic("reflect: call of reflect.Value.Uint on %v Value", r.t)
		return nil
	})
	E("(reflect.Value).Float", func(fr *frame, args []value) value {
		r := mustRV(args[0], "Float")
		switch x := r.get().(type) {
		case float32:
			return float64(x)
		case float64:
			return x
		}
		tpanic("reflect: call of reflect.Value.Float on %v Value", r.t)
		return nil
	})
	E("(reflect.Value).Int", func(fr *frame, args []value) value {
		r := mustRV(args[0], "Int")
		switch x := r.get().(type) {
		case int:
			return int64(x)
		case int8:
			return int64(x)
		case int16:
			return int64(x)
		case int32:
			return int64(x)
		case int64:
			return x
		case symInt:
			return resize(x, types.Int64)
		}
		tpanic("reflect: call of reflect.Value.Int on %v Value", r.t)
		return nil
	})
	E("(reflect.Value).String", func(fr *frame, args []value) value {
		r, ok := unpackRV(args[0])
		if !ok {
			return "<invalid Value>"
		}
		switch s := r.get().(type) {
		case string, sstring:
			return s
		}
		return "<" + r.t.String() + " Value>"
	})
	E("(reflect.Value).Len", func(fr *frame, args []value) value {
		r := mustRV(args[0], "Len")
		switch v := r.get().(type) {
		case string:
			return len(v)
		case sstring:
			return len(v.b)
		case array:
			return len(v)
		case []value:
			return len(v)
		case *hashmap:
			return v.len()
		}
		tpanic("reflect: call of reflect.Value.Len on %v Value", r.t)
		return nil
	})
	E("(reflect.Value).Cap", func(fr *frame, args []value) value {
		r := mustRV(args[0], "Cap")
		switch v := r.get().(type) {
		case array:
			return len(v)
		case []value:
			return cap(v)
		}
		tpanic("reflect: call of reflect.Value.Cap on %v Value", r.t)
		return nil
	})
	E("(reflect.Value).CanSet", func(fr *frame, args []value) value {
		r, ok := unpackRV(args[0])
		return ok && r.addr != nil
	})
	E("(reflect.Value).CanInterface", func(fr *frame, args []value) value {
		_, ok := unpackRV(args[0])
		return ok
	})
	E("(reflect.Value).IsZero", func(fr *frame, args []value) value {
		r := mustRV(args[0], "IsZero")
		v := r.get()
		if isSym(v) {
			panic(unsupported("reflect.Value.IsZero on a symbolic value"))
		}
		defer func() {
			if p := recover(); p != nil {
				panic(unsupported("reflect.Value.IsZero on this kind"))
			}
		}()
		switch x := v.(type) {
		case []value:
			return x == nil
		case *hashmap:
			return x == nil
		case *value:
			return x == nil
		case iface:
			return x.t == nil
		}
		return equals(r.t, v, zero(r.t))
	})
	E("(reflect.Value).Slice", func(fr *frame, args []value) value {
		r := mustRV(args[0], "Slice")
		i, j := int(asInt64(args[1])), int(asInt64(args[2]))
		switch v := r.get().(type) {
		case []value:
			if i < 0 || j < i || j > cap(v) {
				tpanic("reflect.Value.Slice: slice index out of bounds")
			}
			return packRV(r.t, v[i:j], nil)
		case string:
			if i < 0 || j < i || j > len(v) {
				tpanic("reflect.Value.Slice: string slice index out of bounds")
			}
			return packRV(r.t, v[i:j], nil)
		}
		tpanic("reflect: call of reflect.Value.Slice on %v Value", r.t)
		return nil
	})
	E("(reflect.Value).SetString", func(fr *frame, args []value) value {
		r := mustRV(args[0], "SetString")
		if r.addr == nil {
			tpanic("reflect: reflect.Value.SetString using unaddressable value")
		}
		checkFrozen(r.addr)
		*r.addr = args[1]
		return nil
	})
	E("(reflect.Value).SetBool", func(fr *frame, args []value) value {
		r := mustRV(args[0], "SetBool")
		if r.addr == nil {
			tpanic("reflect: reflect.Value.SetBool using unaddressable value")
		}
		checkFrozen(r.addr)
		*r.addr = args[1]
		return nil
	})
	E("(reflect.Value).Convert", func(fr *frame, args []value) value {
		r := mustRV(args[0], "Convert")
		t := rtypeOf(args[1])
		v := r.get()
		switch {
		case isIface(t) && !isIface(r.t):
			if !types.AssignableTo(r.t, t) {
				tpanic("reflect.Value.Convert: value of type %v cannot be converted to type %v", r.t, t)
			}
			v = iface{r.t, v}
		case isIface(t) && isIface(r.t):
			it := v.(iface)
			if it.t != nil && !types.AssignableTo(it.t, t) {
				tpanic("reflect.Value.Convert: value of type %v cannot be converted to type %v", it.t, t)
			}
		case !types.ConvertibleTo(r.t, t):
			tpanic("reflect.Value.Convert: value of type %v cannot be converted to type %v", r.t, t)
		case !types.Identical(r.t.Underlying(), t.Underlying()):
			panic(unsupported("reflect.Value.Convert between different underlying types"))
		}
		return packRV(t, v, nil)
	})
	E("(reflect.Value).Pointer", func(fr *frame, args []value) value {
		panic(unsupported("reflect.Value.Pointer"))
	})
	E("(reflect.Value).UnsafePointer", func(fr *frame, args []value) value {
		panic(unsupported("reflect.Value.UnsafePointer"))
	})
	E("reflect.Append", func(fr *frame, args []value) value {
		r := mustRV(args[0], "Append")
		s, _ := r.get().([]value)
		out := append([]value{}, s...)
		et := r.t.Underlying().(*types.Slice).Elem()
		for _, a := range args[1].([]value) {
			x := mustRV(a, "Append")
			if !types.AssignableTo(x.t, et) {
				tpanic("reflect.Append: value of type %v is not assignable to type %v", x.t, et)
			}
			v := x.get()
			if isIface(et) && !isIface(x.t) {
				v = iface{x.t, v}
			}
			out = append(out, v)
		}
		return packRV(r.t, out, nil)
	})
}
