#!/bin/bash
# usage: tools/seedrun.sh <patch.diff> <Cxx> [quick|thorough] [more props...]
# applies a seeded change to /repo, runs the check(s), and ALWAYS restores /repo.
set -u
pd=$1; shift
tier=quick
props=()
for a in "$@"; do case "$a" in quick|thorough) tier=$a;; *) props+=("$a");; esac; done
[ -z "$(git -C /repo status --porcelain)" ] || { echo "/repo is not clean"; exit 2; }
trap 'git -C /repo checkout -- . ; git -C /repo clean -fdq' EXIT
git -C /repo apply "$pd" || { echo "PATCH DOES NOT APPLY"; exit 2; }
for p in "${props[@]}"; do
  out=$(cd /verif && ./check $p $tier 2>&1); rc=$?
  echo "== $p $tier rc=$rc"
  echo "$out" | grep -E "^(VIOLATION|  entry=|ENGINE-DISAGREEMENT|INCONCLUSIVE|ERROR|UNREPLAYABLE|SUMMARY)" | cut -c1-300 | head -12
done
