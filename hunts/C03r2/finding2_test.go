package patch

// Goes in: patch/ (package patch).
//
// C03 finding 2: a metavariable bound to a composite literal (T{..},
// pkg.T{..}, G[int]{..}) that the '+' pattern places directly in the header
// of an if/for/switch statement is printed without the parentheses Go needs
// there; the output cannot be parsed and the whole file is refused.

import (
	"go/parser"
	"go/token"
	"strings"
	"testing"
)

func TestC03H2Finding2_CompositeLiteralInControlClause(t *testing.T) {
	const patchSrc = "@@\nvar x, y expression\n@@\n-reflect.DeepEqual(x, y)\n+x == y\n"
	const src = `package p

import "reflect"

type T struct{ a int }

func f(a T) bool {
	if reflect.DeepEqual(a, T{1}) {
		return true
	}
	return reflect.DeepEqual(a, T{2})
}
`
	pf, err := Parse("eq.patch", []byte(patchSrc))
	if err != nil {
		t.Fatal(err)
	}
	out, err := pf.Apply("a.go", []byte(src))
	if err != nil {
		t.Fatalf("a == (T{1}) is admissible in the if header, but Apply failed: %v", err)
	}
	if _, err := parser.ParseFile(token.NewFileSet(), "a.go", out, 0); err != nil {
		t.Fatalf("output does not parse: %v\n%s", err, out)
	}
	if strings.Contains(string(out), "DeepEqual(") {
		t.Errorf("site left unchanged:\n%s", out)
	}
}
